"""Simulator event handlers under contract: __handle_task_placement (C02 guard, C03 start time, C05 retry
strictly later, C06 cancelled placements and cascade)."""
import z3

from pyvc import ty as T
from pyvc import heap as H
from pyvc.engine import Fact, Step
from pyvc.registry import ANY, CLASSES, Contract, Loop, declare_ref, lemma, scan, assumption, observation, body_frame, frame_arrays_any
from contracts import shapes as S_
from contracts.c_utils import ETy, OptET, us, t_time, t_unit, mk
from contracts.c_events import EL, q_list, is_heap, mem, ev_time, ev_type, ev_task, et, lst_mod, EVENT, same_members
from contracts.c_tasks import TASK, RUNNING, SCHEDULED, PREEMPTED, COMPLETED, CANCELLED, EVICTED, VIRTUAL, RELEASED, wf_task, some, get, fld as tfld
from contracts.c_taskgraph import TG, TGR, GRAPH, Adj, TaskList, ready_to_run, g_children, g_parents, task_state, closed_graph
from contracts.c_simulator import SIM, Simulator, sim_queue, sim_time, FutureMap, closed_queue, WPS, POOL, PoolMap

WORKLOAD = "workload.workload.Workload"
TGMap = T.Dict(T.STR, TGR)
Workload = declare_ref(WORKLOAD, {"_task_graphs": TGMap})
Simulator.fields["_workload"] = T.Ref(WORKLOAD)
Simulator.fields["_worker_pools"] = T.Ref(WPS)
PL = "workload.placement.Placement"

P = ("C02", "C03", "C05", "C06")

Contract("workload.workload.Workload.get_task_graph", inline=True, props=P)
Contract("workers.workers.WorkerPools.get_worker_pool", inline=True, props=P)

SLOWEST_ = z3.Function("slowest_strategy", z3.IntSort(), z3.IntSort())


def REMT(state_arr, rem_arr, task, h=None):
    """kept for the scheduler specs: remaining time as a function of the task's state and stored remaining time"""
    return z3.Function("task_remaining_time", z3.ArraySort(z3.IntSort(), z3.IntSort()), z3.ArraySort(z3.IntSort(), T.sort(OptET)), z3.IntSort(), T.sort(ETy))(state_arr, rem_arr, task)


def remaining_time_spec(h, t):
    """Task.remaining_time, from its docstring: zero when done, the stored remaining time while scheduled / running /
    preempted / evicted, otherwise the runtime of the slowest strategy"""
    s = h.rd(t, TASK, "_state")[1]
    rem = h.rd(t, TASK, "_remaining_time")[1]
    prof = h.rd(t, TASK, "_profile")[1]
    strategies = h.rd(prof, "workload.profile.WorkProfile", "_execution_strategies")[1]
    slow = h.rd(SLOWEST_(strategies), "workload.strategy.ExecutionStrategy", "_runtime")[1]
    return z3.If(z3.Or(s == COMPLETED, s == CANCELLED), mk(z3.IntVal(0), z3.IntVal(0)), z3.If(z3.Or(s == RUNNING, s == PREEMPTED, s == EVICTED, s == SCHEDULED), get(rem), slow))


Contract(
    "workload.tasks.Task.remaining_time",
    params={"self": S_.Task.ty},
    ret=ETy,
    requires=lambda c: {"wf": wf_task(c.pre, c.arg("self"))},
    may_raise=("AttributeError",),
    ensures=lambda c: {
        "remaining_time.by_state": c.res == remaining_time_spec(c.pre, c.arg("self")),
        "remaining_time.functional": c.res == REMT(c.pre.fld_arr(TASK, "_state")[2], c.pre.fld_arr(TASK, "_remaining_time")[2], c.arg("self")),
    },
    entry_facts=lambda c: [Fact("spec.def", REMT(c.pre.fld_arr(TASK, "_state")[2], c.pre.fld_arr(TASK, "_remaining_time")[2], c.arg("self")) == remaining_time_spec(c.pre, c.arg("self")))],
    note="the uninterpreted REMT used by the scheduler specs is *defined* as the by-state expression (entry fact spec.def); AttributeError when the task has no strategies",
    props=P + ("C13", "C03"),
)

Contract(
    "workload.tasks.TaskGraph.is_cancelled",
    params={"self": TGR},
    ret=T.BOOL,
    trusted=True,
    ensures=lambda c: z3.BoolVal(True),
    note="TaskGraph.is_cancelled: an unspecified pure boolean here (decided by the bounded taskgraph/worlds stand-ins)",
    props=P,
)

# cancellation closure of a task in a graph, as an uninterpreted predicate of the pre-state (its definition is
# checked by the bounded taskgraph stand-in; here only *that the handler cancels and reports it* is at stake)
CL = z3.Function("cancel_closure", z3.ArraySort(z3.IntSort(), z3.IntSort()), z3.IntSort(), z3.IntSort(), z3.IntSort(), z3.BoolSort())


def closure(h, g, task, x):
    return CL(h.fld_arr(TASK, "_state")[2], g, task, x)


def _tg_cancel_ens(c):
    g, task = c.arg("self"), c.arg("task")
    x = z3.Int(H.fresh_name("cc_x"))
    r = c.res
    return z3.And(
        r >= c.alloc0,
        # exactly the closure is returned, every member ends CANCELLED with the given cancellation time; others keep their state
        z3.ForAll([x], c.post.l_mem(TaskList, r, x) == closure(c.pre, g, task, x), patterns=[c.post.l_mem(TaskList, r, x), closure(c.pre, g, task, x)]),
        z3.ForAll(
            [x],
            z3.If(
                closure(c.pre, g, task, x),
                z3.And(
                    x > 0,
                    x < c.alloc0,
                    task_state(c.post, x) == CANCELLED,
                    c.post.rd(x, TASK, "_cancellation_time")[1] == T.opt_some(OptET, c.arg("time")),
                    # (TaskGraph.cancel#body: only a task that has not started is cancelled by the cascade)
                    z3.Or(task_state(c.pre, x) == VIRTUAL, task_state(c.pre, x) == RELEASED, task_state(c.pre, x) == SCHEDULED),
                ),
                # (TaskGraph.cancel#body: a task that is not reported is exactly as it was)
                z3.Implies(z3.And(0 < x, x < c.alloc0), z3.And(*[c.post.rd(x, TASK, f)[1] == c.pre.rd(x, TASK, f)[1] for f in ("_state", "_cancellation_time", "_probability", "_remaining_time")])),
            ),
            patterns=[task_state(c.post, x), closure(c.pre, g, task, x), c.post.rd(x, TASK, "_cancellation_time")[1]],
        ),
        # (TaskGraph.cancel#body: the task itself is reported unless it already was CANCELLED)
        z3.Implies(task_state(c.pre, task) != CANCELLED, closure(c.pre, g, task, task)),
    )


Contract(
    "workload.tasks.TaskGraph.cancel",
    params={"self": TGR, "task": S_.TASKR, "time": ETy},
    ret=TaskList,
    trusted=True,
    allocates=True,
    may_raise=("ValueError", "AttributeError"),
    # (TaskGraph.cancel#body: besides the task fields, looking up the parents of a reached child may add an empty entry to
    # the graph's parent map, a defaultdict)
    modifies=lambda c: dict({c.pre.fld_arr(TASK, f)[0]: ANY for f in ("_state", "_cancellation_time", "_probability", "_remaining_time")}, **{c.pre.carr(Adj, p_)[0]: [g_parents(c.pre, c.arg("self"))] for p_ in ("len", "keys", "idx", "dom", "val")}),
    ensures=_tg_cancel_ens,
    note="TaskGraph.cancel: returns and cancels the downstream closure of the task (closure left abstract; its definition is decided by the bounded taskgraph stand-in)",
    props=P,
)

def _pool_ghost(c, p):
    return {c.pre.fld_arr(POOL, g)[0]: [p] for g in ("$ver", "$last_task", "$last_strategy")}


def _pool_place_ens(c):
    p, task, s = c.arg("self"), c.arg("task"), c.arg("execution_strategy")
    v0 = c.pre.rd(p, POOL, "$ver")[1]
    CA = z3.Function("pool_can_accomodate", z3.IntSort(), z3.IntSort(), z3.IntSort(), z3.BoolSort())
    placed = z3.And(c.post.rd(p, POOL, "$ver")[1] == v0 + 1, c.post.rd(p, POOL, "$last_task")[1] == task, c.post.rd(p, POOL, "$last_strategy")[1] == s)
    same = z3.And(*[c.post.rd(p, POOL, g)[1] == c.pre.rd(p, POOL, g)[1] for g in ("$ver", "$last_task", "$last_strategy")])
    return z3.And(
        z3.If(c.res, placed, same),
        # first fit over the pool's workers: a strategy the pool can accomodate is placed (no worker_id given)
        z3.Implies(z3.And(s != 0, T.opt_is_none(S_.OptSTR, c.arg("worker_id")), CA(v0, p, s)), c.res),
    )


Contract(
    "workers.workers.WorkerPool.place_task",
    params={"self": S_.WorkerPool.ty, "task": S_.TASKR, "execution_strategy": S_.nullable("workload.strategy.ExecutionStrategy"), "worker_id": S_.OptSTR},
    ret=T.BOOL,
    trusted=True,
    modifies=lambda c: _pool_ghost(c, c.arg("self")),
    ensures=_pool_place_ens,
    note="WorkerPool.place_task, abstractly: on success the pool's occupancy (ghost version) moves by one placement of (task, strategy) and nothing else changes; a strategy that can_accomodate_strategy accepts is placed. Its effect on the ledger is the subject of C04/C01 (Worker-level contracts + bounded ledger); no Task / Event / queue field is touched",
    props=P + ("C13", "C10", "C12"),
)


def fut(h, s):
    return h.rd(s, SIM, "_future_placement_events")[1]


def tid(h, t):
    return h.rd(t, TASK, "_id")[1]


def _hp_names(c):
    s, ev = c.arg("self"), c.arg("event")
    task = ev_task(c.pre, ev)
    wl = c.arg("workload")
    g = c.pre.d_val(TGMap, c.pre.rd(wl, WORKLOAD, "_task_graphs")[1], c.pre.rd(task, TASK, "_task_graph")[1])
    return s, ev, task, wl, g


def _parents_wf(h, g, task):
    from contracts.c_taskgraph import n_parents, parent_at

    j = z3.Int(H.fresh_name("pw_j"))
    return z3.ForAll([j], z3.Implies(z3.And(0 <= j, j < n_parents(h, g, task)), wf_task(h, parent_at(h, g, task, j))), patterns=[parent_at(h, g, task, j)])


def _hp_requires(c):
    s, ev, task, wl, g = _hp_names(c)
    return {
        "heap_ok": is_heap(c.pre, sim_queue(c.pre, s)),
        "task_event": z3.And(task != 0, c.pre.rd(ev, EVENT, "_placement")[1] != 0),
        "placement_is_PLACE_TASK": c.pre.rd(c.pre.rd(ev, EVENT, "_placement")[1], PL, "_placement_type")[1] == S_.PlacementType.ty.ordinal("PLACE_TASK"),
        "task_wf": wf_task(c.pre, task),
        "variance_nonneg": c.pre.rd(s, SIM, "_runtime_variance")[1] >= 0,
        "graph_known": z3.Implies(
            c.pre.d_dom(TGMap, c.pre.rd(wl, WORKLOAD, "_task_graphs")[1], c.pre.rd(task, TASK, "_task_graph")[1]),
            z3.And(g != 0, c.pre.d_dom(Adj, g_children(c.pre, g), task), g_children(c.pre, g) != g_parents(c.pre, g)),
        ),
        "event_at_clock": us(ev_time(c.pre, ev)) >= 0,
        # the Task representation invariant (preserved by every Task mutator, c_tasks) holds for the task's parents
        "parents_wf": _parents_wf(c.pre, g, task),
    }


def _hp_mod(c):
    s, ev, task, wl, g = _hp_names(c)
    out = lst_mod(c, sim_queue(c.pre, s))
    for f in ("_state", "_cancellation_time", "_probability", "_remaining_time", "_start_time", "_last_step_time"):
        out[c.pre.fld_arr(TASK, f)[0]] = ANY
    for p in ("len", "keys", "idx", "dom", "val"):
        out[c.pre.carr(FutureMap, p)[0]] = [fut(c.pre, s)]
        out[c.pre.carr(Adj, p)[0]] = [g_parents(c.pre, g)]
    for gh in ("$ver", "$last_task", "$last_strategy"):
        out[c.pre.fld_arr(POOL, gh)[0]] = ANY
    return out


def _hp_ens(c):
    s, ev, task, wl, g = _hp_names(c)
    lst = sim_queue(c.pre, s)
    st0, st1 = task_state(c.pre, task), task_state(c.post, task)
    started = z3.And(st1 == RUNNING, st0 != RUNNING)
    e = z3.Int(H.fresh_name("hp_e"))
    x = z3.Int(H.fresh_name("hp_x"))
    new_event = lambda y: z3.And(mem(c.post, lst, y), z3.Not(mem(c.pre, lst, y)))
    now = us(ev_time(c.pre, ev))
    ready0 = ready_to_run(c.pre, g, task)
    retried = z3.Exists([e], z3.And(new_event(e), ev_task(c.post, e) == task, ev_type(c.post, e) == ev_type(c.pre, ev), us(ev_time(c.post, e)) > now))
    became_cancelled = lambda y: z3.And(0 < y, y < c.alloc0, task_state(c.pre, y) != CANCELLED, task_state(c.post, y) == CANCELLED)
    return {
        # C02: a task is started by this handler only if the readiness test held (predecessors complete, SCHEDULED/PREEMPTED)
        "placement.guarded": z3.Implies(started, ready0),
        # C03: it starts exactly at the event's time
        "placement.start_at_event_time": z3.Implies(started, z3.And(st0 == SCHEDULED, us(c.post.rd(task, TASK, "_start_time")[1]) == now)),
        # C02: when the readiness test fails nothing is started
        "placement.not_ready_not_started": z3.Implies(z3.Not(ready0), z3.Not(started)),
        # C05: a placement that is neither applied nor dropped is re-queued strictly later (no same-instant retry loop)
        "placement.retry_strictly_later": z3.Implies(z3.And(z3.Not(started), st1 != CANCELLED, st0 != CANCELLED), z3.Or(retried, z3.Not(c.post.d_dom(FutureMap, fut(c.pre, s), tid(c.pre, task))))),
        # C06: a placement for a cancelled task is consumed and never starts it
        "placement.consumes_cancelled": z3.Implies(st0 == CANCELLED, z3.And(st1 == CANCELLED, z3.Not(c.post.d_dom(FutureMap, fut(c.pre, s), tid(c.pre, task))))),
        # C06: every task cancelled by this handler is reported by a queued TASK_CANCEL event, and if the task itself is
        # cancelled here its whole downstream closure is
        "placement.cancellations_reported": z3.ForAll(
            [x],
            z3.Implies(became_cancelled(x), z3.Exists([e], z3.And(new_event(e), ev_type(c.post, e) == et("TASK_CANCEL"), ev_task(c.post, e) == x))),
            patterns=[task_state(c.post, x)],
        ),
        "placement.cancel_is_closed_downstream": z3.Implies(became_cancelled(task), z3.ForAll([x], z3.Implies(closure(c.pre, g, task, x), task_state(c.post, x) == CANCELLED), patterns=[closure(c.pre, g, task, x)])),
        "queue.heap_ok": is_heap(c.post, lst),
        "queue.keeps_old_events": z3.ForAll([e], z3.Implies(mem(c.pre, lst, e), mem(c.post, lst, e)), patterns=[mem(c.pre, lst, e)]),
    }


def _cancel_loop_inv(c, L):
    """adding one TASK_CANCEL event per task returned by task_graph.cancel(...)"""
    s, ev, task, wl, g = _hp_names(c)
    lst = sim_queue(c.pre, s)
    h = c.post
    j = z3.Int(H.fresh_name("cl_j"))
    e = z3.Int(H.fresh_name("cl_e"))
    res = L.seq.z
    tj = h.l_elem(TaskList, res, j)
    new_event = lambda y: z3.And(mem(h, lst, y), z3.Not(mem(c.pre, lst, y)))
    k = z3.Int(H.fresh_name("cl_k"))
    return {
        "heap_ok": is_heap(h, lst),
        "old_kept": z3.ForAll([e], z3.Implies(mem(c.pre, lst, e), mem(h, lst, e)), patterns=[mem(c.pre, lst, e)]),
        "members_allocated": z3.ForAll([e], z3.Implies(mem(h, lst, e), z3.And(e > 0, e < c.run.cur_alloc())), patterns=[mem(h, lst, e)]),
        "reported_prefix": z3.ForAll(
            [j],
            z3.Implies(z3.And(0 <= j, j < L.i), z3.Exists([e], z3.And(new_event(e), ev_type(h, e) == et("TASK_CANCEL"), ev_task(h, e) == tj))),
            patterns=[h.l_elem(TaskList, res, j)],
        ),
    }


def _cancel_loop_lemmas(c, L, phase):
    s = c.arg("self")
    if phase == "exit":
        # intermediate step (checked): the index-wise invariant restated over members of the cancelled list
        h = c.post
        lst = sim_queue(c.pre, s)
        x = z3.Int(H.fresh_name("clx_x"))
        e = z3.Int(H.fresh_name("clx_e"))
        new_event = lambda y: z3.And(mem(h, lst, y), z3.Not(mem(c.pre, lst, y)))
        return [
            Fact("list.mem_def", c.post.l_mem_def(TaskList, L.seq.z)),
            Step(
                "every_cancelled_member_reported",
                z3.ForAll([x], z3.Implies(h.l_mem(TaskList, L.seq.z, x), z3.Exists([e], z3.And(new_event(e), ev_type(h, e) == et("TASK_CANCEL"), ev_task(h, e) == x))), patterns=[h.l_mem(TaskList, L.seq.z, x)]),
            ),
        ]
    if phase == "start":
        return [Fact("list.index_mem", c.post.l_index_mem(EL, sim_queue(c.pre, s)))]
    return []


def _cancel_loop_mod(c):
    s, ev, task, wl, g = _hp_names(c)
    out = lst_mod(c, sim_queue(c.pre, s))
    for f in ("_event_type", "_time", "_task", "_task_graph", "_placement"):
        out[c.pre.fld_arr(EVENT, f)[0]] = []
    return out


Contract(
    "simulator.Simulator.__handle_task_placement",
    params={"self": Simulator.ty, "event": S_.Event.ty, "workload": T.Ref(WORKLOAD)},
    requires=_hp_requires,
    may_raise=("AssertionError", "ValueError", "AttributeError"),
    raise_unchanged=False,
    modifies=_hp_mod,
    loops={0: Loop(inv=_cancel_loop_inv, modifies=_cancel_loop_mod, lemmas=_cancel_loop_lemmas)},
    drops=("resource_allocation_str = ",),
    ensures=_hp_ens,
    entry_facts=lambda c: [closed_queue(c), closed_graph(c, _hp_names(c)[4])],
    allocates=True,
    note="may raise AssertionError (bookkeeping asserts), ValueError (max() of an empty parent list for a source task that is not ready) and AttributeError (None pool / strategy); those paths are not constrained",
    props=P,
)


# =================================================================================================
# __handle_task_finished : C08 counters, C03 completion bookkeeping, C02 release events, C06 graph-finished
# =================================================================================================
TL2 = T.Tup(TaskList, TaskList)

Contract(
    "workers.workers.WorkerPool.remove_task",
    params={"self": S_.WorkerPool.ty, "current_time": ETy, "task": S_.TASKR},
    trusted=True,
    may_raise=("ValueError",),
    modifies=body_frame("workers.workers.WorkerPool.remove_task"),
    ensures=lambda c: z3.BoolVal(True),
    note="WorkerPool.remove_task as seen from the finish handler: writes what remove_task#body may write (the pool's and its workers' ledgers; the ledger effect itself is the subject of C04/C01), no Task / Event / queue / counter field",
    props=("C08", "C03", "C02", "C06"),
)

TGC = z3.Function("taskgraph_is_complete", z3.ArraySort(z3.IntSort(), z3.IntSort()), z3.IntSort(), z3.BoolSort())
TGD = z3.Function("taskgraph_deadline", z3.IntSort(), T.sort(ETy))

Contract(
    "workload.tasks.TaskGraph.is_complete",
    params={"self": TGR},
    ret=T.BOOL,
    trusted=True,
    ensures=lambda c: c.res == TGC(c.pre.fld_arr(TASK, "_state")[2], c.arg("self")),
    note="TaskGraph.is_complete: a pure function of the task states (its meaning -- all sinks COMPLETED -- is decided by the bounded taskgraph stand-in)",
    props=("C08", "C06"),
)
Contract(
    "workload.tasks.TaskGraph.deadline",
    params={"self": TGR},
    ret=ETy,
    trusted=True,
    may_raise=("ValueError",),
    ensures=lambda c: c.res == TGD(c.arg("self")),
    note="TaskGraph.deadline: a pure function of the graph; its meaning (the latest task deadline of the graph, ValueError for a graph without nodes) is verified against the body as TaskGraph.deadline#body and related to this contract by TaskGraph.deadline#refines",
    props=("C08",),
)
Contract("workload.tasks.TaskGraph.name", params={"self": TGR}, ret=T.STR, trusted=True, ensures=lambda c: z3.BoolVal(True), note="TaskGraph.name (only logged)", props=("C08",))


def _notify_ens(c):
    r = c.res
    rel, can = T.tup_get(TL2, r, 0), T.tup_get(TL2, r, 1)
    x = z3.Int(H.fresh_name("nt_x"))
    return z3.And(
        rel >= c.alloc0,
        can >= c.alloc0,
        rel != can,
        # cancelled tasks carry their cancellation time (Task.cancel's contract)
        z3.ForAll(
            [x],
            z3.Implies(c.post.l_mem(TaskList, can, x), z3.And(x > 0, task_state(c.post, x) == CANCELLED, c.post.rd(x, TASK, "_cancellation_time")[1] == T.opt_some(OptET, c.arg("finish_time")))),
            patterns=[c.post.l_mem(TaskList, can, x)],
        ),
        z3.ForAll([x], z3.Implies(c.post.l_mem(TaskList, rel, x), z3.And(x > 0, x < c.alloc0)), patterns=[c.post.l_mem(TaskList, rel, x)]),
    )


Contract(
    "workload.workload.Workload.notify_task_completion",
    params={"self": T.Ref(WORKLOAD), "task": S_.TASKR, "finish_time": ETy},
    ret=TL2,
    trusted=True,
    allocates=True,
    may_raise=("ValueError", "RuntimeError", "IndexError", "AttributeError"),
    modifies=lambda c: dict({c.pre.fld_arr(TASK, f)[0]: ANY for f in ("_state", "_cancellation_time", "_probability", "_remaining_time")}, **{c.pre.carr(Adj, p_)[0]: [g_parents(c.pre, _wntc_graph(c))] for p_ in ("len", "keys", "idx", "dom", "val")}),
    ensures=_notify_ens,
    note="Workload.notify_task_completion: returns (released, cancelled) task lists (which children: decided by the bounded taskgraph stand-in)",
    props=("C08", "C02", "C06"),
)
def _wntc_graph(c):
    return c.pre.d_val(TGMap, c.pre.rd(c.arg("self"), WORKLOAD, "_task_graphs")[1], c.pre.rd(c.arg("task"), TASK, "_task_graph")[1])


def _wntc_requires(c):
    from contracts.c_taskgraph import child_at, n_children

    g, t = _wntc_graph(c), c.arg("task")
    j = z3.Int(H.fresh_name("wn_j"))
    known = c.pre.d_dom(TGMap, c.pre.rd(c.arg("self"), WORKLOAD, "_task_graphs")[1], c.pre.rd(t, TASK, "_task_graph")[1])
    return {
        # graph representation invariant of the task's graph (as required by TaskGraph.notify_task_completion)
        "graph_wf": z3.Implies(
            known,
            z3.And(
                g != 0,
                g_children(c.pre, g) != g_parents(c.pre, g),
                z3.ForAll([j], z3.Implies(z3.And(0 <= j, j < n_children(c.pre, g, t)), z3.And(child_at(c.pre, g, t, j) != 0, c.pre.d_dom(Adj, g_children(c.pre, g), child_at(c.pre, g, t, j)))), patterns=[child_at(c.pre, g, t, j)]),
            ),
        ),
    }


Contract(
    "workload.workload.Workload.notify_task_completion#body",
    params={"self": T.Ref(WORKLOAD), "task": S_.TASKR, "finish_time": ETy},
    ret=TL2,
    requires=_wntc_requires,
    may_raise=("ValueError", "RuntimeError", "IndexError", "AttributeError"),
    raise_unchanged=False,
    modifies=lambda c: dict({c.pre.fld_arr(TASK, f)[0]: ANY for f in ("_state", "_cancellation_time", "_probability", "_remaining_time")}, **{c.pre.carr(Adj, p_)[0]: [g_parents(c.pre, _wntc_graph(c))] for p_ in ("len", "keys", "idx", "dom", "val")}),
    ensures=lambda c: {"notify.abstract_contract_holds": _notify_ens(c)},
    allocates=True,
    note="the abstract contract the finish handler uses, verified against the body (a lookup of the task's graph + TaskGraph.notify_task_completion, which is verified) under the representation invariant of that graph",
    props=("C08", "C02", "C06", "C07"),
)

Contract(
    "workload.workload.Workload.notify_task_graph_completion",
    params={"self": T.Ref(WORKLOAD), "task_graph": TGR, "finish_time": ETy},
    ret=TaskList,
    trusted=True,
    allocates=True,
    may_raise=("ValueError", "AttributeError"),
    modifies=lambda c: {},
    ensures=lambda c: z3.And(
        c.res >= c.alloc0,
        z3.ForAll([z3.Int("ngc_x")], z3.Implies(c.post.l_mem(TaskList, c.res, z3.Int("ngc_x")), z3.Int("ngc_x") > 0), patterns=[c.post.l_mem(TaskList, c.res, z3.Int("ngc_x"))]),
    ),
    note="Workload.notify_task_graph_completion: tasks of a closed-loop follow-up graph (bounded: loaders / worlds)",
    props=("C08", "C02"),
)


def _hf_names(c):
    s, ev = c.arg("self"), c.arg("event")
    task = ev_task(c.pre, ev)
    return s, ev, task


def _cnt(h, s, f):
    return h.rd(s, SIM, f)[1]


def _hf_requires(c):
    s, ev, task = _hf_names(c)
    return {
        "heap_ok": is_heap(c.pre, sim_queue(c.pre, s)),
        "task_event": task != 0,
        "task_wf": wf_task(c.pre, task),
        "finish_time_known": some(c.pre.rd(task, TASK, "_last_step_time")[1]),
    }


def _hf_mod(c):
    s, ev, task = _hf_names(c)
    out = lst_mod(c, sim_queue(c.pre, s))
    for f in ("_state", "_cancellation_time", "_probability", "_remaining_time", "_completion_time", "_worker_pool_id"):
        out[c.pre.fld_arr(TASK, f)[0]] = ANY
    for f in ("_finished_tasks", "_finished_task_graphs", "_missed_task_deadlines", "_missed_task_graph_deadlines"):
        out[c.pre.fld_arr(SIM, f)[0]] = [s]
    # taking the task off its pool writes the ledgers of that pool and its workers (WorkerPool.remove_task#body)
    out.update(frame_arrays_any("workers.workers.WorkerPool.remove_task#body")(c))
    # notifying the task's graph may add empty entries to its parent map (a defaultdict)
    g = c.pre.d_val(TGMap, c.pre.rd(c.pre.rd(s, SIM, "_workload")[1], WORKLOAD, "_task_graphs")[1], c.pre.rd(task, TASK, "_task_graph")[1])
    for p_ in ("len", "keys", "idx", "dom", "val"):
        out[c.pre.carr(Adj, p_)[0]] = [g_parents(c.pre, g)]
    return out


def _hf_ens(c):
    s, ev, task = _hf_names(c)
    lst = sim_queue(c.pre, s)
    now = us(ev_time(c.pre, ev))
    e = z3.Int(H.fresh_name("hf_e"))
    new_event = lambda y: z3.And(mem(c.post, lst, y), z3.Not(mem(c.pre, lst, y)))
    late = now > us(c.pre.rd(task, TASK, "_deadline")[1])
    return {
        # C08: the counters move exactly with what happened
        "count.finished": _cnt(c.post, s, "_finished_tasks") == _cnt(c.pre, s, "_finished_tasks") + 1,
        "count.missed_iff_late": _cnt(c.post, s, "_missed_task_deadlines") == _cnt(c.pre, s, "_missed_task_deadlines") + z3.If(late, 1, 0),
        "count.graph_finished_at_most_one": z3.And(
            _cnt(c.post, s, "_finished_task_graphs") >= _cnt(c.pre, s, "_finished_task_graphs"),
            _cnt(c.post, s, "_finished_task_graphs") <= _cnt(c.pre, s, "_finished_task_graphs") + 1,
        ),
        "count.graph_missed_only_if_graph_finished": z3.Implies(
            _cnt(c.post, s, "_missed_task_graph_deadlines") != _cnt(c.pre, s, "_missed_task_graph_deadlines"),
            z3.And(_cnt(c.post, s, "_finished_task_graphs") == _cnt(c.pre, s, "_finished_task_graphs") + 1, _cnt(c.post, s, "_missed_task_graph_deadlines") == _cnt(c.pre, s, "_missed_task_graph_deadlines") + 1),
        ),
        # C03: completion is stamped with the time the task's last step reached
        "finish.completion_time": c.post.rd(task, TASK, "_completion_time")[1] == get(c.pre.rd(task, TASK, "_last_step_time")[1]),
        # C02 / C16: every event this handler queues is a release or a cancellation, none of them in the past
        "events.release_or_cancel_not_in_past": z3.ForAll(
            [e],
            z3.Implies(
                new_event(e),
                z3.And(z3.Or(ev_type(c.post, e) == et("TASK_RELEASE"), ev_type(c.post, e) == et("TASK_CANCEL")), ev_task(c.post, e) != 0, z3.Implies(ev_type(c.post, e) == et("TASK_RELEASE"), us(ev_time(c.post, e)) >= now)),
            ),
            patterns=[mem(c.post, lst, e)],
        ),
        "queue.heap_ok": is_heap(c.post, lst),
        "queue.keeps_old_events": z3.ForAll([e], z3.Implies(mem(c.pre, lst, e), mem(c.post, lst, e)), patterns=[mem(c.pre, lst, e)]),
    }


def _hf_loop_inv(kind):
    def inv(c, L):
        s, ev, task = _hf_names(c)
        lst = sim_queue(c.pre, s)
        h = c.post
        e = z3.Int(H.fresh_name("fl_e"))
        now = us(ev_time(c.pre, ev))
        cur_ev = L.var("event")
        new_event = lambda y: z3.And(mem(h, lst, y), z3.Not(mem(c.pre, lst, y)))
        return {
            "heap_ok": is_heap(h, lst),
            "old_kept": z3.ForAll([e], z3.Implies(mem(c.pre, lst, e), mem(h, lst, e)), patterns=[mem(c.pre, lst, e)]),
            "members_allocated": z3.ForAll([e], z3.Implies(mem(h, lst, e), z3.And(e > 0, e < c.run.cur_alloc())), patterns=[mem(h, lst, e)]),
            "new_events_ok": z3.ForAll(
                [e],
                z3.Implies(
                    new_event(e),
                    z3.And(z3.Or(ev_type(h, e) == et("TASK_RELEASE"), ev_type(h, e) == et("TASK_CANCEL")), ev_task(h, e) != 0, z3.Implies(ev_type(h, e) == et("TASK_RELEASE"), us(ev_time(h, e)) >= now)),
                ),
                patterns=[mem(h, lst, e)],
            ),
            # `event` is re-bound inside the loops: whatever it currently names is not earlier than the finish time
            "event_var_not_earlier": z3.And(cur_ev != 0, cur_ev < c.run.cur_alloc(), us(ev_time(h, cur_ev)) >= now),
            "counters_frozen": z3.And(*[_cnt(h, s, f) == _cnt(L.head, s, f) for f in ("_finished_tasks", "_finished_task_graphs", "_missed_task_deadlines", "_missed_task_graph_deadlines")]),
            "completion_frozen": h.rd(task, TASK, "_completion_time")[1] == L.head.rd(task, TASK, "_completion_time")[1],
        }

    return inv


def _hf_loop_mod(c):
    s, ev, task = _hf_names(c)
    out = lst_mod(c, sim_queue(c.pre, s))
    for f in ("_event_type", "_time", "_task", "_task_graph", "_placement"):
        out[c.pre.fld_arr(EVENT, f)[0]] = []
    return out


def _hf_loop_lemmas(c, L, phase):
    s = c.arg("self")
    if phase == "start":
        return [Fact("list.index_mem", c.post.l_index_mem(EL, sim_queue(c.pre, s)))]
    return []


Contract(
    "simulator.Simulator.__handle_task_finished",
    params={"self": Simulator.ty, "event": S_.Event.ty},
    requires=_hf_requires,
    may_raise=("ValueError", "RuntimeError", "AttributeError", "IndexError"),
    raise_unchanged=False,
    modifies=_hf_mod,
    loops={0: Loop(inv=_hf_loop_inv("cancel"), modifies=_hf_loop_mod, lemmas=_hf_loop_lemmas), 1: Loop(inv=_hf_loop_inv("release"), modifies=_hf_loop_mod, lemmas=_hf_loop_lemmas)},
    ensures=_hf_ens,
    entry_facts=lambda c: [closed_queue(c)],
    allocates=True,
    note="may raise ValueError / RuntimeError / AttributeError / IndexError from the callees (unknown pool, notify on inconsistent graph, random.choices(...)[0]); those paths are not constrained",
    props=("C08", "C03", "C02", "C06"),
)


# =================================================================================================
# __handle_task_release : the in-place re-timing of the pending SCHEDULER_START (C16 sim.retime.scheduler, C05 release.pulls_earlier)
# =================================================================================================
STRATS_ = "workload.strategy.ExecutionStrategies"
SLOWEST = z3.Function("slowest_strategy", z3.IntSort(), z3.IntSort())
Contract(
    "workload.strategy.ExecutionStrategies.get_slowest_strategy",
    params={"self": T.Ref(STRATS_)},
    ret=S_.nullable("workload.strategy.ExecutionStrategy"),
    trusted=True,
    ensures=lambda c: c.res == SLOWEST(c.arg("self")),
    note="ExecutionStrategies.get_slowest_strategy: a pure function of the strategy list (max by runtime); only logged here",
    props=("C16", "C05"),
)


def nse(h, s):
    return h.rd(s, SIM, "_next_scheduler_event")[1]


def _hr_requires(c):
    s, ev = c.arg("self"), c.arg("event")
    return {
        "heap_ok": is_heap(c.pre, sim_queue(c.pre, s)),
        "task_event": ev_task(c.pre, ev) != 0,
        "delay_nonneg": us(c.pre.rd(s, SIM, "_scheduler_delay")[1]) >= 0,
    }


def _hr_mod(c):
    s, ev = c.arg("self"), c.arg("event")
    out = lst_mod(c, sim_queue(c.pre, s))
    task = ev_task(c.pre, ev)
    for f in ("_release_time", "_state", "_pre_scheduling_state"):
        out[c.pre.fld_arr(TASK, f)[0]] = [task]
    out[c.pre.fld_arr(EVENT, "_time")[0]] = [nse(c.pre, s)]
    return out


def _hr_ens(c):
    s, ev = c.arg("self"), c.arg("event")
    lst = sim_queue(c.pre, s)
    task = ev_task(c.pre, ev)
    n = nse(c.pre, s)
    e = z3.Int(H.fresh_name("hr_e"))
    t0, t1 = us(ev_time(c.pre, n)), us(ev_time(c.post, n))
    target = us(ev_time(c.pre, ev)) + us(c.pre.rd(s, SIM, "_scheduler_delay")[1])
    pull = z3.And(task_state(c.post, task) < SCHEDULED, n != 0, z3.Not(c.pre.rd(s, SIM, "_run_scheduler_at_worker_free")[1]))
    return {
        # C16: whatever was re-timed in place, the queue is a valid heap again when the handler returns
        "queue.heap_ok_after_retiming": is_heap(c.post, lst),
        "queue.same_members": z3.ForAll([e], mem(c.post, lst, e) == mem(c.pre, lst, e), patterns=[mem(c.post, lst, e)]),
        # C05: a release pulls the pending scheduler invocation to min(old time, release + delay), never later
        "release.pulls_earlier": z3.Implies(n != 0, z3.If(pull, t1 == z3.If(t0 <= target, t0, target), t1 == t0)),
        "release.task_released": z3.And(task_state(c.post, task) != VIRTUAL, c.post.rd(task, TASK, "_release_time")[1] == ev_time(c.pre, ev)),
    }


Contract(
    "simulator.Simulator.__handle_task_release",
    params={"self": Simulator.ty, "event": S_.Event.ty},
    requires=_hr_requires,
    may_raise=("ValueError", "AttributeError"),
    raise_unchanged=False,
    modifies=_hr_mod,
    drops=("resources_str = ",),
    ensures=_hr_ens,
    entry_facts=lambda c: [closed_queue(c)],
    note="may raise ValueError (task not releasable) / AttributeError (no strategies): not constrained",
    props=("C16", "C05", "C02"),
)


# =================================================================================================
# __create_events_from_task_placement : applying one PLACE_TASK decision by the task's prior state
# (C16 sim.retime.placement, C06 decisions by prior state, C02/C03 placement event at the chosen time)
# =================================================================================================
PT_ = S_.PlacementType.ty
Contract(
    "workload.placement.Placement.task",
    params={"self": T.Ref(PL)},
    ret=S_.TASKR,
    requires=lambda c: {"computation_is_a_task": z3.And(c.pre.rd(c.arg("self"), PL, "_computation")[1] != 0, c.pre.cls_tag(c.pre.rd(c.arg("self"), PL, "_computation")[1]) == CLASSES[TASK].code)},
    raises={"RuntimeError": lambda c: z3.Not(z3.Or(c.pre.rd(c.arg("self"), PL, "_placement_type")[1] == PT_.ordinal("PLACE_TASK"), c.pre.rd(c.arg("self"), PL, "_placement_type")[1] == PT_.ordinal("CANCEL_TASK")))},
    ensures=lambda c: {"placement.task.is_computation": c.res == c.pre.rd(c.arg("self"), PL, "_computation")[1]},
    props=("C16", "C06"),
)
Contract("workload.placement.Placement.is_placed", inline=True, props=("C16", "C06"))

# -------------------------------------------------------------------------------------------------
# __create_events_from_task_placement_skip : an unplaced decision either defers the task (its pending placement leaves the
# queue and the cache, the task falls back to its pre-scheduling state) or - with drop_skipped_tasks - cancels the cascade
# and reports one TASK_CANCEL event per cancelled task. Verified against the body (was an assumed contract).
# -------------------------------------------------------------------------------------------------
def _sk_names(c):
    s, pl = c.arg("self"), c.arg("placement")
    task = c.pre.rd(pl, PL, "_computation")[1]
    wl = c.pre.rd(s, SIM, "_workload")[1]
    g = c.pre.d_val(TGMap, c.pre.rd(wl, WORKLOAD, "_task_graphs")[1], c.pre.rd(task, TASK, "_task_graph")[1])
    return s, pl, task, sim_queue(c.pre, s), fut(c.pre, s), tid(c.pre, task), g


def _sk_requires(c):
    s, pl, task, lst, fm, k, g = _sk_names(c)
    return {
        "heap_ok": is_heap(c.pre, lst),
        "task_present": z3.And(task > 0, c.pre.cls_tag(task) == CLASSES[TASK].code),
        "task_wf": wf_task(c.pre, task),
    }


def _sk_mod(c):
    s, pl, task, lst, fm, k, g = _sk_names(c)
    out = lst_mod(c, lst)
    for f in ("_state", "_cancellation_time", "_probability", "_remaining_time", "_scheduling_time", "_scheduler_placement", "_worker_pool_id"):
        out[c.pre.fld_arr(TASK, f)[0]] = ANY
    for p_ in ("len", "keys", "idx", "dom"):
        out[c.pre.carr(FutureMap, p_)[0]] = [fm]
    for p_ in ("len", "keys", "idx", "dom", "val"):
        out[c.pre.carr(Adj, p_)[0]] = [g_parents(c.pre, g)]
    return out


_SK_TASK_FIELDS = ("_state", "_cancellation_time", "_probability", "_remaining_time", "_scheduling_time", "_scheduler_placement", "_worker_pool_id")


def _sk_ens(c):
    s, pl, task, lst, fm, k, g = _sk_names(c)
    drop = c.arg("drop_skipped_tasks")
    r = c.res
    j, e, t = z3.Int(H.fresh_name("sk_j")), z3.Int(H.fresh_name("sk_e")), z3.Int(H.fresh_name("sk_t"))
    x = z3.Const(H.fresh_name("sk_x"), T.sort(T.STR))
    ej = c.post.l_elem(EL, r, j)
    had = c.pre.d_dom(FutureMap, fm, k)
    pending = c.pre.d_val(FutureMap, fm, k)
    st0, st1 = task_state(c.pre, task), task_state(c.post, task)
    same_t = lambda y: z3.And(*[c.post.rd(y, TASK, f)[1] == c.pre.rd(y, TASK, f)[1] for f in _SK_TASK_FIELDS])
    return {
        "skip.fresh_list": r >= c.alloc0,
        # C16: the queue is a valid heap on return (the pending placement is removed through remove_event)
        "skip.heap_ok": is_heap(c.post, lst),
        # the events it returns are fresh TASK_CANCEL / TASK_RELEASE events of some task; none without drop_skipped_tasks
        "skip.events_cancel_or_release": z3.ForAll(
            [j],
            z3.Implies(z3.And(0 <= j, j < c.post.c_len(EL, r)), z3.And(ej >= c.alloc0, ev_task(c.post, ej) != 0, z3.Or(ev_type(c.post, ej) == et("TASK_CANCEL"), ev_type(c.post, ej) == et("TASK_RELEASE")))),
            patterns=[c.post.l_elem(EL, r, j)],
        ),
        "skip.no_events_when_deferred": z3.Implies(z3.Not(drop), c.post.c_len(EL, r) == 0),
        # C06 (cancellation is reported): with drop_skipped_tasks every task of the cascade gets its TASK_CANCEL event
        "skip.cascade_reported": z3.Implies(
            drop,
            z3.ForAll(
                [t],
                z3.Implies(closure(c.pre, g, task, t), z3.Exists([j], z3.And(0 <= j, j < c.post.c_len(EL, r), ev_type(c.post, ej) == et("TASK_CANCEL"), ev_task(c.post, ej) == t, ev_time(c.post, ej) == c.arg("time")))),
                patterns=[closure(c.pre, g, task, t)],
            ),
        ),
        # C06: with drop_skipped_tasks the cascade is cancelled, every other task is as it was; queue and cache untouched
        "skip.drop_cancels_cascade_only": z3.Implies(
            drop,
            z3.And(
                z3.ForAll([t], z3.Implies(z3.And(0 < t, t < c.alloc0), z3.If(closure(c.pre, g, task, t), task_state(c.post, t) == CANCELLED, same_t(t))), patterns=[task_state(c.post, t)]),
                z3.Implies(st0 != CANCELLED, st1 == CANCELLED),
                c.post.c_len(EL, lst) == c.pre.c_len(EL, lst),
                c.post.l_elems(EL, lst) == c.pre.l_elems(EL, lst),
                z3.ForAll([x], z3.And(c.post.d_dom(FutureMap, fm, x) == c.pre.d_dom(FutureMap, fm, x)), patterns=[c.post.d_dom(FutureMap, fm, x)]),
            ),
        ),
        # C06 / C05: a deferred task with a pending placement falls back to its pre-scheduling state (VIRTUAL / RELEASED), its
        # pending placement leaves queue and cache; one without a pending placement is not touched at all
        "skip.deferred_task_unscheduled": z3.Implies(
            z3.And(z3.Not(drop), had),
            z3.And(
                st0 == SCHEDULED,
                st1 == c.pre.rd(task, TASK, "_pre_scheduling_state")[1],
                z3.Or(st1 == VIRTUAL, st1 == RELEASED),
                c.post.rd(task, TASK, "_scheduler_placement")[1] == 0,
                z3.Not(c.post.d_dom(FutureMap, fm, k)),
                same_members(c, lst, removed=pending),
                c.post.c_len(EL, lst) == c.pre.c_len(EL, lst) - 1,
            ),
        ),
        "skip.deferred_without_pending_untouched": z3.Implies(
            z3.And(z3.Not(drop), z3.Not(had)),
            z3.And(same_t(task), c.post.c_len(EL, lst) == c.pre.c_len(EL, lst), c.post.l_elems(EL, lst) == c.pre.l_elems(EL, lst)),
        ),
        "skip.other_tasks_untouched_when_deferred": z3.Implies(z3.Not(drop), z3.ForAll([t], z3.Implies(z3.And(t != task, 0 < t, t < c.alloc0), same_t(t)), patterns=[task_state(c.post, t)])),
        # the cache of pending placements only loses the entry of this task
        "skip.cache_loses_only_this_entry": z3.ForAll(
            [x],
            z3.Implies(x != k, z3.And(c.post.d_dom(FutureMap, fm, x) == c.pre.d_dom(FutureMap, fm, x), c.post.d_val(FutureMap, fm, x) == c.pre.d_val(FutureMap, fm, x))),
            patterns=[c.post.d_dom(FutureMap, fm, x)],
        ),
        "skip.cache_only_shrinks": z3.ForAll([x], z3.Implies(c.post.d_dom(FutureMap, fm, x), c.pre.d_dom(FutureMap, fm, x)), patterns=[c.post.d_dom(FutureMap, fm, x)]),
        # it queues nothing itself (the events it creates are returned): the queue can only lose the pending placement
        "skip.queue_members_only_shrink": z3.ForAll([e], z3.Implies(mem(c.post, lst, e), mem(c.pre, lst, e)), patterns=[mem(c.post, lst, e)]),
        # every task it touches goes through Task.unschedule / Task.cancel: the Task representation invariant is preserved
        "skip.tasks_stay_well_formed": z3.ForAll([t], z3.Implies(z3.And(0 < t, t < c.alloc0, wf_task(c.pre, t)), wf_task(c.post, t)), patterns=[c.post.rd(t, TASK, "_state")[1]]),
    }


def _sk_loop_inv(kind):
    def inv(c, L):
        s, pl, task, lst, fm, k, g = _sk_names(c)
        h = c.post
        te = L.var("task_events")
        j = z3.Int(H.fresh_name("skl_j"))
        ej = h.l_elem(EL, te, j)
        out = {
            "events_list_fresh": z3.And(te >= c.alloc0, te < c.run.cur_alloc()),
            "events_ok": z3.ForAll(
                [j],
                z3.Implies(
                    z3.And(0 <= j, j < h.c_len(EL, te)),
                    z3.And(ej >= c.alloc0, ej < c.run.cur_alloc(), ev_task(h, ej) != 0, z3.Or(ev_type(h, ej) == et("TASK_CANCEL"), ev_type(h, ej) == et("TASK_RELEASE"))),
                ),
                patterns=[h.l_elem(EL, te, j)],
            ),
        }
        if kind == "cancel":
            out["one_cancel_event_per_task_so_far"] = z3.And(
                h.c_len(EL, te) == L.i,
                z3.ForAll(
                    [j],
                    z3.Implies(z3.And(0 <= j, j < L.i), z3.And(ev_type(h, ej) == et("TASK_CANCEL"), ev_task(h, ej) == h.l_elem(TaskList, L.seq.z, j), ev_time(h, ej) == c.arg("time"))),
                    patterns=[h.l_elem(EL, te, j), h.l_elem(TaskList, L.seq.z, j)],
                ),
            )
        else:
            n0 = L.head.c_len(EL, te)
            out["earlier_events_kept"] = z3.And(
                h.c_len(EL, te) == n0 + L.i,
                z3.ForAll(
                    [j],
                    z3.Implies(
                        z3.And(0 <= j, j < n0),
                        z3.And(ej == L.head.l_elem(EL, te, j), ev_type(h, ej) == ev_type(L.head, ej), ev_task(h, ej) == ev_task(L.head, ej), ev_time(h, ej) == ev_time(L.head, ej)),
                    ),
                    patterns=[h.l_elem(EL, te, j), L.head.l_elem(EL, te, j)],
                ),
            )
        return out

    return inv


def _sk_loop_mod(c):
    te = c.run.frames[-1].env.get("task_events")
    out = {c.pre.carr(EL, "len")[0]: [te.z], c.pre.carr(EL, "elem")[0]: [te.z]}
    for f in ("_event_type", "_time", "_task", "_task_graph", "_placement"):
        out[c.pre.fld_arr(EVENT, f)[0]] = []
    return out


def _sk_loop_lemmas(c, L, phase):
    if phase == "exit":
        return [Fact("list.mem_def", c.post.l_mem_def(TaskList, L.seq.z))]
    return []


Contract(
    "simulator.Simulator.__create_events_from_task_placement_skip",
    params={"self": Simulator.ty, "time": ETy, "placement": T.Ref(PL), "drop_skipped_tasks": T.BOOL},
    ret=EL,
    requires=_sk_requires,
    raises={"AssertionError": lambda c: z3.Not(T.opt_is_none(S_.OptSTR, c.pre.rd(c.arg("placement"), PL, "_worker_pool_id")[1]))},
    may_raise=("ValueError", "RuntimeError", "AttributeError"),
    raise_unchanged=False,
    modifies=_sk_mod,
    loops={0: Loop(inv=_sk_loop_inv("cancel"), modifies=_sk_loop_mod, lemmas=_sk_loop_lemmas), 1: Loop(inv=_sk_loop_inv("release"), modifies=_sk_loop_mod)},
    locals={"task_events": EL},
    ensures=_sk_ens,
    entry_facts=lambda c: [closed_queue(c)],
    allocates=True,
    note="verified against the body. Exception paths are not constrained: AssertionError (a placed decision), RuntimeError (Placement.task of a non-task placement), ValueError (unknown task graph; the cached pending placement is not queued; the task with a pending placement is not SCHEDULED; Event() of a task without a cancellation / release time), AttributeError. The cascade itself is TaskGraph.cancel (abstract contract, body verified as TaskGraph.cancel#body)",
    props=("C16", "C06", "C05", "C12"),
)


def _ce_names(c):
    s, pl = c.arg("self"), c.arg("placement")
    task = c.pre.rd(pl, PL, "_computation")[1]
    return s, pl, task


def _ce_requires(c):
    s, pl, task = _ce_names(c)
    strat = c.pre.rd(pl, PL, "_strategy")[1]
    placed = z3.Not(T.opt_is_none(S_.OptSTR, c.pre.rd(pl, PL, "_worker_pool_id")[1]))
    return {
        "heap_ok": is_heap(c.pre, sim_queue(c.pre, s)),
        "task_present": z3.And(task > 0, c.pre.cls_tag(task) == CLASSES[TASK].code),
        "placed_decision_complete": z3.Implies(placed, z3.And(strat != 0, us(c.pre.rd(strat, "workload.strategy.ExecutionStrategy", "_runtime")[1]) >= 0, some(c.pre.rd(pl, PL, "_placement_time")[1]))),
        "task_wf": wf_task(c.pre, task),
    }


def _ce_mod(c):
    s, pl, task = _ce_names(c)
    out = lst_mod(c, sim_queue(c.pre, s))
    for f in ("_state", "_cancellation_time", "_probability", "_remaining_time", "_scheduling_time", "_scheduler_placement", "_worker_pool_id"):
        out[c.pre.fld_arr(TASK, f)[0]] = ANY
    for p in ("len", "keys", "idx", "dom", "val"):
        out[c.pre.carr(FutureMap, p)[0]] = [fut(c.pre, s)]
    out[c.pre.fld_arr(EVENT, "_time")[0]] = ANY
    out[c.pre.fld_arr(EVENT, "_placement")[0]] = ANY
    # the cancellation cascade of the skip helper may add empty entries to the parent map of the task's graph
    g = c.pre.d_val(TGMap, c.pre.rd(c.pre.rd(s, SIM, "_workload")[1], WORKLOAD, "_task_graphs")[1], c.pre.rd(task, TASK, "_task_graph")[1])
    for p_ in ("len", "keys", "idx", "dom", "val"):
        out[c.pre.carr(Adj, p_)[0]] = [g_parents(c.pre, g)]
    return out


def _ce_ens(c):
    s, pl, task = _ce_names(c)
    lst = sim_queue(c.pre, s)
    st0, st1 = task_state(c.pre, task), task_state(c.post, task)
    placed = z3.Not(T.opt_is_none(S_.OptSTR, c.pre.rd(pl, PL, "_worker_pool_id")[1]))
    ptime = get(c.pre.rd(pl, PL, "_placement_time")[1])
    r = c.res
    j = z3.Int(H.fresh_name("ce_j"))
    ej = c.post.l_elem(EL, r, j)
    return {
        # C16: the cached placement event may have been re-timed in place; the queue is a valid heap on return
        "queue.heap_ok_after_retiming": is_heap(c.post, lst),
        # C06: decisions are applied by prior state: a placed decision schedules a not-yet-started task, and a task that
        # is running, completed or cancelled keeps its state
        "decision.schedules_pending_task": z3.Implies(z3.And(placed, z3.Or(st0 == VIRTUAL, st0 == RELEASED, st0 == SCHEDULED)), st1 == SCHEDULED),
        "decision.started_or_final_task_untouched": z3.Implies(z3.Or(st0 == RUNNING, st0 == COMPLETED, st0 == CANCELLED, st0 == EVICTED), st1 == st0),
        # C03 (the task executes the strategy its scheduler chose LAST): whenever a placed decision is applied to a task
        # that has not started, the task records exactly this decision -- also when it revises an earlier one and keeps
        # its time and pool (seed C03-3): remaining time := runtime of the decision's strategy
        "decision.task_records_this_decision": z3.Implies(
            z3.And(placed, z3.Or(st0 == VIRTUAL, st0 == RELEASED, st0 == SCHEDULED)),
            z3.And(
                c.post.rd(task, TASK, "_scheduler_placement")[1] == pl,
                c.post.rd(task, TASK, "_worker_pool_id")[1] == c.pre.rd(pl, PL, "_worker_pool_id")[1],
                some(c.post.rd(task, TASK, "_remaining_time")[1]),
                get(c.post.rd(task, TASK, "_remaining_time")[1]) == c.pre.rd(c.pre.rd(pl, PL, "_strategy")[1], "workload.strategy.ExecutionStrategy", "_runtime")[1],
            ),
        ),
        # ... and the pending placement event cached for the task carries this decision and fires at the chosen time
        "decision.pending_event_carries_this_decision": z3.Implies(
            z3.And(placed, z3.Or(st0 == VIRTUAL, st0 == RELEASED, st0 == SCHEDULED)),
            z3.And(
                c.post.d_dom(FutureMap, fut(c.pre, s), tid(c.pre, task)),
                c.post.rd(c.post.d_val(FutureMap, fut(c.pre, s), tid(c.pre, task)), EVENT, "_placement")[1] == pl,
                us(ev_time(c.post, c.post.d_val(FutureMap, fut(c.pre, s), tid(c.pre, task)))) == us(ptime),
            ),
        ),
        # only the pending placement event cached for THIS task is ever re-timed; cache entries are old ones or fresh events
        "events.only_cached_event_of_task_retimed": z3.ForAll(
            [z3.Int("ce_e")],
            z3.Implies(
                z3.And(0 < z3.Int("ce_e"), z3.Int("ce_e") < c.alloc0, z3.Not(z3.And(c.pre.d_dom(FutureMap, fut(c.pre, s), tid(c.pre, task)), z3.Int("ce_e") == c.pre.d_val(FutureMap, fut(c.pre, s), tid(c.pre, task))))),
                ev_time(c.post, z3.Int("ce_e")) == ev_time(c.pre, z3.Int("ce_e")),
            ),
            patterns=[ev_time(c.post, z3.Int("ce_e"))],
        ),
        "cache.entries_old_or_fresh": z3.ForAll(
            [z3.Const("ce_x", T.sort(T.STR))],
            z3.Implies(
                c.post.d_dom(FutureMap, fut(c.pre, s), z3.Const("ce_x", T.sort(T.STR))),
                z3.Or(
                    z3.And(c.pre.d_dom(FutureMap, fut(c.pre, s), z3.Const("ce_x", T.sort(T.STR))), c.post.d_val(FutureMap, fut(c.pre, s), z3.Const("ce_x", T.sort(T.STR))) == c.pre.d_val(FutureMap, fut(c.pre, s), z3.Const("ce_x", T.sort(T.STR)))),
                    c.post.d_val(FutureMap, fut(c.pre, s), z3.Const("ce_x", T.sort(T.STR))) >= c.alloc0,
                ),
            ),
            patterns=[c.post.d_dom(FutureMap, fut(c.pre, s), z3.Const("ce_x", T.sort(T.STR)))],
        ),
        "queue.members_only_shrink": z3.ForAll([z3.Int("ce_e")], z3.Implies(mem(c.post, lst, z3.Int("ce_e")), mem(c.pre, lst, z3.Int("ce_e"))), patterns=[mem(c.post, lst, z3.Int("ce_e"))]),
        "events.not_none": z3.ForAll([j], z3.Implies(z3.And(0 <= j, j < c.post.c_len(EL, r)), ej != 0), patterns=[c.post.l_elem(EL, r, j)]),
        "task.stays_well_formed": wf_task(c.post, task),
        "other_tasks.stay_well_formed": z3.ForAll([z3.Int("ce_t")], z3.Implies(z3.And(z3.Int("ce_t") != task, 0 < z3.Int("ce_t"), z3.Int("ce_t") < c.alloc0, wf_task(c.pre, z3.Int("ce_t"))), wf_task(c.post, z3.Int("ce_t"))), patterns=[c.post.rd(z3.Int("ce_t"), TASK, "_state")[1]]),
        # C02 / C03: a TASK_PLACEMENT event created here is for this task, carries this placement and fires at the chosen time
        "events.placement_at_chosen_time": z3.ForAll(
            [j],
            z3.Implies(
                z3.And(0 <= j, j < c.post.c_len(EL, r), ev_type(c.post, ej) == et("TASK_PLACEMENT")),
                z3.And(ev_task(c.post, ej) == task, c.post.rd(ej, EVENT, "_placement")[1] == pl, us(ev_time(c.post, ej)) == us(ptime)),
            ),
            patterns=[c.post.l_elem(EL, r, j)],
        ),
    }


Contract(
    "simulator.Simulator.__create_events_from_task_placement",
    params={"self": Simulator.ty, "event_time": ETy, "placement": T.Ref(PL)},
    ret=EL,
    requires=_ce_requires,
    may_raise=("ValueError", "NotImplementedError", "RuntimeError", "AttributeError", "KeyError"),
    raise_unchanged=False,
    modifies=_ce_mod,
    locals={"simulator_events": EL},
    ensures=_ce_ens,
    entry_facts=lambda c: [closed_queue(c)],
    allocates=True,
    note="exception paths (wrong placement type, PREEMPTED task, skip helper) are not constrained",
    props=("C16", "C06", "C02", "C03", "C08"),
)


# =================================================================================================
# Simulator.simulate : the main loop body (C03 loop.step_le_min_remaining / loop.event_at_its_time, clock never backwards)
# =================================================================================================
from contracts.c_simulator import queue_not_in_past  # noqa: E402

def CONTRACTS_get_placed_tasks_text(c):
    return z3.And(
        c.res >= c.alloc0,
        z3.ForAll([z3.Int("gp_x")], z3.Implies(c.post.l_mem(TaskList, c.res, z3.Int("gp_x")), z3.And(z3.Int("gp_x") > 0, z3.Int("gp_x") < c.alloc0, wf_task(c.pre, z3.Int("gp_x")))), patterns=[c.post.l_mem(TaskList, c.res, z3.Int("gp_x"))]),
        z3.ForAll(
            [z3.Int("gp_j")],
            z3.Implies(
                z3.And(0 <= z3.Int("gp_j"), z3.Int("gp_j") < c.post.c_len(TaskList, c.res)),
                z3.And(c.post.l_elem(TaskList, c.res, z3.Int("gp_j")) > 0, c.post.l_elem(TaskList, c.res, z3.Int("gp_j")) < c.alloc0, wf_task(c.pre, c.post.l_elem(TaskList, c.res, z3.Int("gp_j")))),
            ),
            patterns=[c.post.l_elem(TaskList, c.res, z3.Int("gp_j"))],
        ),
    )


Contract(
    "workers.workers.WorkerPools.get_placed_tasks",
    params={"self": T.Ref(WPS)},
    ret=TaskList,
    trusted=True,
    allocates=True,
    ensures=CONTRACTS_get_placed_tasks_text,
    note="WorkerPools.get_placed_tasks: the tasks resident on the cluster (a fresh list); every such task satisfies the Task representation invariant (which every Task mutator is proved to preserve)",
    props=("C03", "C05"),
)


def _he_mod(c):
    s = c.arg("self")
    out = lst_mod(c, sim_queue(c.pre, s))
    for cls_, info in (("T", S_.Task), ("E", S_.Event)):
        pass
    for f in S_.Task.fields:
        if f != "_logger":
            out[c.pre.fld_arr(TASK, f)[0]] = ANY
    for f in ("_event_type", "_time", "_task", "_task_graph", "_placement"):
        out[c.pre.fld_arr(EVENT, f)[0]] = ANY
    for f in Simulator.fields:
        if f not in ("_logger", "_csv_logger", "_log_dir", "_simulator_time", "_event_queue"):
            out[c.pre.fld_arr(SIM, f)[0]] = [s]
    # the handlers under contract also write the cache of pending placements and (through defaultdict look-ups) the
    # parent maps of task graphs
    for p_ in ("len", "keys", "idx", "dom", "val"):
        out[c.pre.carr(FutureMap, p_)[0]] = ANY
        out[c.pre.carr(Adj, p_)[0]] = ANY
    # ... and, through WorkerPool.place_task / remove_task, the ledgers of pools and workers
    out.update(frame_arrays_any("workers.workers.WorkerPool.remove_task#body", "workers.workers.WorkerPool.place_task#body")(c))
    return out


Contract(
    "simulator.Simulator.__handle_event",
    params={"self": Simulator.ty, "event": S_.Event.ty},
    ret=T.BOOL,
    trusted=True,
    allocates=True,
    requires=lambda c: {
        "heap_ok": is_heap(c.pre, sim_queue(c.pre, c.arg("self"))),
        # C03: an event takes effect only when the clock has reached its time
        "event_at_its_time": us(ev_time(c.pre, c.arg("event"))) == us(sim_time(c.pre, c.arg("self"))),
    },
    may_raise=("ValueError", "RuntimeError", "AttributeError", "AssertionError", "KeyError", "NotImplementedError"),
    modifies=_he_mod,
    ensures=lambda c: z3.And(
        is_heap(c.post, sim_queue(c.pre, c.arg("self"))),
        z3.Implies(queue_not_in_past(c.pre, c.arg("self")), queue_not_in_past(c.post, c.arg("self"))),
        sim_queue(c.post, c.arg("self")) == sim_queue(c.pre, c.arg("self")),
    ),
    note="__handle_event (dispatch to the handlers): assumed to keep the queue a valid heap and to queue nothing in the past (each handler under contract proves its part: heap_ok, events not in the past); does not move the clock",
    props=("C03", "C05"),
)


def _sim_inv(c, L):
    s = c.arg("self")
    h = c.post
    return {
        "heap_ok": is_heap(h, sim_queue(h, s)),
        "queue_not_in_past": queue_not_in_past(h, s),
        "queue_list_stable": z3.And(sim_queue(h, s) == sim_queue(c.pre, s), sim_queue(h, s) > 0, h.rd(s, SIM, "_event_queue")[1] == c.pre.rd(s, SIM, "_event_queue")[1]),
        # C03: the simulated clock never moves backwards
        "clock_monotone": us(sim_time(h, s)) >= us(sim_time(c.pre, s)),
    }


def _sim_loop_mod(c):
    return _he_mod(c) | {c.pre.fld_arr(SIM, "_simulator_time")[0]: [c.arg("self")]}


def _le_every_remaining(c, L, d):
    """d does not exceed the remaining time of any resident task (Task.remaining_time's by-state value)"""
    h = c.post
    lst = L.var("running_tasks")
    j = z3.Int(H.fresh_name("sr_j"))
    t = h.l_elem(TaskList, lst, j)
    return z3.ForAll([j], z3.Implies(z3.And(0 <= j, j < h.c_len(TaskList, lst)), us(d) <= us(remaining_time_spec(h, t))), patterns=[h.l_elem(TaskList, lst, j)])


def _at_step_min(c, L):
    """C03: the loop advances by min(smallest remaining time, time to the next event)"""
    d = L.var("min_task_remaining_time")
    tun = L.var("time_until_next_event")
    return {"loop.step_le_time_to_next_event": us(d) <= us(tun), "loop.step_le_every_remaining_time": _le_every_remaining(c, L, d)}


def _at_step_tun(c, L):
    s = c.arg("self")
    h = c.post
    tun = L.var("time_until_next_event")
    out = {}
    if L.has("min_task_remaining_time"):
        out["loop.step_le_min_remaining_time"] = us(tun) <= us(L.var("min_task_remaining_time"))
    out["loop.step_le_every_remaining_time"] = _le_every_remaining(c, L, tun)
    out["loop.step_to_next_event_is_nonneg"] = us(tun) >= 0
    out["loop.step_reaches_earliest_event"] = earliest_at(h, s, us(sim_time(h, s)) + us(tun))
    return out


def earliest_at(h, s, t):
    """t is the time of an earliest queued event: nothing queued before t, something queued at t"""
    e = z3.Int(H.fresh_name("ea_e"))
    q = sim_queue(h, s)
    return z3.And(
        z3.ForAll([e], z3.Implies(mem(h, q, e), us(ev_time(h, e)) >= t), patterns=[mem(h, q, e)]),
        z3.And(mem(h, q, h.l_elem(EL, q, 0)), us(ev_time(h, h.l_elem(EL, q, 0))) == t),
    )


Contract(
    "simulator.Simulator.simulate",
    params={"self": Simulator.ty},
    requires=lambda c: {
        "heap_ok": is_heap(c.pre, sim_queue(c.pre, c.arg("self"))),
        "queue_not_in_past": queue_not_in_past(c.pre, c.arg("self")),
        "queue_is_own_list": sim_queue(c.pre, c.arg("self")) > 0,
    },
    may_raise=("ValueError", "RuntimeError", "AttributeError", "AssertionError", "KeyError", "NotImplementedError", "IndexError"),
    raise_unchanged=False,
    modifies=_sim_loop_mod,
    loops={0: Loop(inv=_sim_inv, modifies=_sim_loop_mod)},
    at={
        "self.__step(step_size=min_task_remaining_time)": _at_step_min,
        "self.__step(step_size=time_until_next_event)": _at_step_tun,
    },
    ensures=lambda c: {"clock.never_backwards": us(sim_time(c.post, c.arg("self"))) >= us(sim_time(c.pre, c.arg("self")))},
    entry_facts=lambda c: [closed_queue(c)],
    allocates=True,
    note="exceptions raised by the handlers propagate (not constrained); termination of the loop is not proved (C05 liveness)",
    props=("C03", "C05"),
)


# =================================================================================================
# Simulator.__handle_task_cancellation : counter + the pending placement of a cancelled task is dropped (C06 / C08)
# =================================================================================================
from contracts.c_events import same_members  # noqa: E402


def _hc_names(c):
    s, ev = c.arg("self"), c.arg("event")
    task = ev_task(c.pre, ev)
    return s, ev, task, sim_queue(c.pre, s), fut(c.pre, s), tid(c.pre, task)


def _hc_requires(c):
    s, ev, task, lst, fm, k = _hc_names(c)
    x = z3.Const(H.fresh_name("hc_x"), T.sort(T.STR))
    return {
        "task_event": task != 0,
        # every cached future placement event is pending in the queue (they are cached when they are queued, and dropped
        # from the cache when they are handled / removed)
        "cached_placements_are_queued": z3.ForAll([x], z3.Implies(c.pre.d_dom(FutureMap, fm, x), mem(c.pre, lst, c.pre.d_val(FutureMap, fm, x))), patterns=[c.pre.d_dom(FutureMap, fm, x)]),
    }


def _hc_mod(c):
    s, ev, task, lst, fm, k = _hc_names(c)
    out = lst_mod(c, lst)
    out[c.pre.fld_arr(SIM, "_cancelled_tasks")[0]] = [s]
    for p_ in ("len", "keys", "idx", "dom"):
        out[c.pre.carr(FutureMap, p_)[0]] = [fm]
    return out


def _hc_ens(c):
    s, ev, task, lst, fm, k = _hc_names(c)
    had = c.pre.d_dom(FutureMap, fm, k)
    pending = c.pre.d_val(FutureMap, fm, k)
    x = z3.Const(H.fresh_name("hc_y"), T.sort(T.STR))
    return {
        # C08: the cancelled-task counter counts exactly the TASK_CANCEL events handled
        "count.cancelled_plus_one": c.post.rd(s, SIM, "_cancelled_tasks")[1] == c.pre.rd(s, SIM, "_cancelled_tasks")[1] + 1,
        # C06: a cancelled task never starts: its pending placement (if any) leaves the queue and the cache
        "cancel.pending_placement_dropped": z3.And(z3.Not(c.post.d_dom(FutureMap, fm, k)), z3.Implies(had, z3.And(same_members(c, lst, removed=pending), c.post.c_len(EL, lst) == c.pre.c_len(EL, lst) - 1))),
        "cancel.queue_untouched_without_pending": z3.Implies(z3.Not(had), z3.And(c.post.c_len(EL, lst) == c.pre.c_len(EL, lst), c.post.l_elems(EL, lst) == c.pre.l_elems(EL, lst))),
        "cancel.other_pending_placements_kept": z3.ForAll(
            [x], z3.Implies(x != k, z3.And(c.post.d_dom(FutureMap, fm, x) == c.pre.d_dom(FutureMap, fm, x), c.post.d_val(FutureMap, fm, x) == c.pre.d_val(FutureMap, fm, x))), patterns=[c.post.d_dom(FutureMap, fm, x)]
        ),
        "queue.heap_ok": z3.Implies(z3.Or(had, is_heap(c.pre, lst)), is_heap(c.post, lst)),
    }


Contract(
    "simulator.Simulator.__handle_task_cancellation",
    params={"self": Simulator.ty, "event": S_.Event.ty},
    requires=_hc_requires,
    may_raise=("AttributeError",),
    modifies=_hc_mod,
    ensures=_hc_ens,
    entry_facts=lambda c: [closed_queue(c)],
    note="the TASK_CANCEL row is written through the csv logger (dropped like every logger call: row contents are decided by the bounded worlds); AttributeError when the event has no task",
    props=("C06", "C08"),
)


# =================================================================================================
# Simulator.__handle_task_preempt : a running task leaves its worker and becomes PREEMPTED (C06)
# =================================================================================================
def _hpre_mod(c):
    s, ev = c.arg("self"), c.arg("event")
    task = ev_task(c.pre, ev)
    out = {c.pre.fld_arr(TASK, f)[0]: [task] for f in ("_state", "_worker_pool_id")}
    pl = T.List(T.Ref("workload.tasks.Task.Preemption"))
    lst = c.pre.rd(task, TASK, "_preemptions")[1]
    out[c.pre.carr(pl, "len")[0]] = [lst]
    out[c.pre.carr(pl, "elem")[0]] = [lst]
    for f in ("preemption_time", "old_worker_pool", "restart_time", "new_worker_pool"):
        out[c.pre.fld_arr("workload.tasks.Task.Preemption", f)[0]] = []
    # taking the task off its pool writes the ledgers of that pool and its workers (WorkerPool.remove_task#body)
    out.update(frame_arrays_any("workers.workers.WorkerPool.remove_task#body")(c))
    return out


Contract(
    "simulator.Simulator.__handle_task_preempt",
    params={"self": Simulator.ty, "event": S_.Event.ty},
    requires=lambda c: {"task_event": ev_task(c.pre, c.arg("event")) != 0, "task_wf": wf_task(c.pre, ev_task(c.pre, c.arg("event")))},
    may_raise=("ValueError", "AttributeError"),
    raise_unchanged=False,
    modifies=_hpre_mod,
    ensures=lambda c: {
        # C06: the only way from RUNNING to PREEMPTED; the task is taken off its pool first
        "preempt.running_to_preempted": z3.And(task_state(c.pre, ev_task(c.pre, c.arg("event"))) == RUNNING, task_state(c.post, ev_task(c.pre, c.arg("event"))) == PREEMPTED),
        "preempt.task_stays_wf": wf_task(c.post, ev_task(c.pre, c.arg("event"))),
    },
    allocates=True,
    note="ValueError when the task is not RUNNING (Task.preempt) or not on the pool (WorkerPool.remove_task, abstract contract); AttributeError when its pool id names no pool; the TASK_PREEMPT row goes through the csv logger (dropped)",
    props=("C06",),
)
