"""C16 (second half): Event ordering, EventQueue heap discipline; heapq library contracts."""
import ast

import z3

from pyvc import ty as T
from pyvc import heap as H
from pyvc.engine import Fact, fstring_fn, str_lt, str_order_axioms
from pyvc.registry import ANY, Contract, lemma, scan, assumption, module_ast, CLASSES
from contracts.c_utils import us, ETy, t_time, t_unit, factor, mk
from contracts import shapes as S

P16 = ("C16",)
EVENT = "simulator.Event"
TASK = "workload.tasks.Task"
ET_MEMBERS = [n for n, _ in S.EventType.ty.members]
TASK_TYPES = ["TASK_CANCEL", "TASK_RELEASE", "TASK_PLACEMENT", "TASK_PREEMPT", "TASK_MIGRATION", "TASK_FINISHED"]


def et(name):
    return z3.IntVal(S.EventType.ty.ordinal(name))


def prio(tz):
    """documented priority = the enum's integer value (read from the source on every run)"""
    vals = [v for _, v in S.EventType.ty.members]
    e = z3.IntVal(vals[-1])
    for k in range(len(vals) - 2, -1, -1):
        e = z3.If(tz == k, vals[k], e)
    return e


def is_task_type(tz):
    return z3.Or(*[tz == et(n) for n in TASK_TYPES])


def uname(h, t):
    """Task.unique_name as the uninterpreted f-string function the engine derives from the source."""
    f = fstring_fn("{}@{}", [z3.IntSort(), z3.IntSort()])
    return f(h.rd(t, TASK, "_name")[1], h.rd(t, TASK, "_task_graph")[1])


def ev_time(h, e):
    return h.rd(e, EVENT, "_time")[1]


def ev_type(h, e):
    return h.rd(e, EVENT, "_event_type")[1]


def ev_task(h, e):
    return h.rd(e, EVENT, "_task")[1]


def ev_lt(h, a, b):
    """Spec of the event order: (time in us, type priority, then task name for same-type task events)."""
    ta, tb = us(ev_time(h, a)), us(ev_time(h, b))
    same = z3.And(ev_type(h, a) == ev_type(h, b), ev_task(h, a) != 0, ev_task(h, b) != 0)
    return z3.If(
        ta == tb,
        z3.If(same, str_lt(uname(h, ev_task(h, a)), uname(h, ev_task(h, b))), prio(ev_type(h, a)) < prio(ev_type(h, b))),
        ta < tb,
    )


def valid_event(h, e):
    return (ev_task(h, e) != 0) == is_task_type(ev_type(h, e))


Contract("simulator.EventType.__lt__", inline=True, props=P16)
Contract("simulator.EventType.__eq__", inline=True, props=P16)

Contract(
    "workload.tasks.Task.unique_name",
    params={"self": S.Task.ty},
    ret=T.STR,
    ensures=lambda c: {"unique_name.fn": c.res == uname(c.pre, c.arg("self"))},
    props=P16,
)


def _init_raises(c):
    t = c.arg("event_type")
    return z3.Or(
        z3.And(is_task_type(t), c.arg("task") == 0),
        z3.And(z3.Or(t == et("TASK_PLACEMENT"), t == et("TASK_MIGRATION")), c.arg("task") != 0, c.arg("placement") == 0),
        z3.And(t == et("TASK_GRAPH_RELEASE"), T.opt_is_none(S.OptSTR, c.arg("task_graph"))),
    )


Contract(
    "simulator.Event.__init__",
    params={
        "self": S.Event.ty,
        "event_type": S.EventType.ty,
        "time": ETy,
        "task": S.nullable(TASK),
        "task_graph": S.OptSTR,
        "placement": S.nullable("workload.placement.Placement"),
    },
    raises={"ValueError": _init_raises},
    raise_unchanged=False,
    modifies=lambda c: {"Event._event_type": [c.arg("self")], "Event._time": [c.arg("self")], "Event._task": [c.arg("self")], "Event._task_graph": [c.arg("self")], "Event._placement": [c.arg("self")]},
    ensures=lambda c: {
        "init.fields": z3.And(
            ev_type(c.post, c.arg("self")) == c.arg("event_type"),
            ev_time(c.post, c.arg("self")) == c.arg("time"),
            ev_task(c.post, c.arg("self")) == c.arg("task"),
            c.f(c.arg("self"), EVENT, "_placement") == c.arg("placement"),
        ),
        "init.task_present_for_task_events": z3.Implies(is_task_type(c.arg("event_type")), c.arg("task") != 0),
    },
    props=P16,
)

Contract(
    "simulator.Event.__lt__",
    params={"self": S.Event.ty, "other": S.Event.ty},
    ret=T.BOOL,
    ensures=lambda c: {"event.key": c.res == ev_lt(c.pre, c.arg("self"), c.arg("other"))},
    props=P16,
)

# ---------------------------------------------------------------------------------------------
# heap discipline
EL = S.EventList


def q_list(h, q):
    return h.rd(q, "simulator.EventQueue", "_event_queue")[1]


def is_heap(h, lst):
    i = z3.Int(H.fresh_name("hp_i"))
    el = lambda k: h.l_elem(EL, lst, k)
    return z3.ForAll([i], z3.Implies(z3.And(0 < i, i < h.c_len(EL, lst)), z3.Not(ev_lt(h, el(i), el((i - 1) / 2)))), patterns=[el(i)])


def mem(h, lst, e):
    return h.l_mem(EL, lst, e)


def same_members(c, lst, extra=None, removed=None):
    e = z3.Int(H.fresh_name("sm_e"))
    rhs = mem(c.pre, lst, e)
    if extra is not None:
        rhs = z3.Or(rhs, e == extra)
    if removed is None:
        return z3.ForAll([e], mem(c.post, lst, e) == rhs, patterns=[mem(c.post, lst, e)])
    return z3.And(
        z3.ForAll([e], z3.Implies(mem(c.post, lst, e), mem(c.pre, lst, e)), patterns=[mem(c.post, lst, e)]),
        z3.ForAll([e], z3.Implies(z3.And(mem(c.pre, lst, e), e != removed), mem(c.post, lst, e)), patterns=[mem(c.pre, lst, e)]),
    )


def minimal(h, hpre, lst, r):
    """r is a <-minimum of the members of lst (as they were in hpre), ordered by the state h."""
    e = z3.Int(H.fresh_name("mn_e"))
    return z3.ForAll([e], z3.Implies(mem(hpre, lst, e), z3.Not(ev_lt(h, e, r))), patterns=[mem(hpre, lst, e)])


def earliest(h, lst, r):
    """no member of lst is timed before r"""
    e = z3.Int(H.fresh_name("er_e"))
    return z3.ForAll([e], z3.Implies(mem(h, lst, e), us(ev_time(h, e)) >= us(ev_time(h, r))), patterns=[mem(h, lst, e)])


def root_earliest_fact(h, lst):
    """instance of lemma heap.root_earliest (proved by induction on the index, see heap_root_earliest below)"""
    i = z3.Int(H.fresh_name("re_i"))
    el = lambda k: h.l_elem(EL, lst, k)
    return Fact(
        "lemma.heap.root_earliest",
        z3.Implies(is_heap(h, lst), z3.ForAll([i], z3.Implies(z3.And(0 <= i, i < h.c_len(EL, lst)), us(ev_time(h, el(i))) >= us(ev_time(h, el(0)))), patterns=[el(i)])),
    )


def lst_mod(c, lst):
    return {c.pre.carr(EL, "len")[0]: [lst], c.pre.carr(EL, "elem")[0]: [lst]}


_lst_mod = lambda c: lst_mod(c, c.arg("heap"))

Contract(
    "heapq.heappush",
    params={"heap": EL, "item": S.Event.ty},
    trusted=True,
    requires=lambda c: {"heap_ok": is_heap(c.pre, c.arg("heap"))},
    modifies=_lst_mod,
    ensures=lambda c: z3.And(
        is_heap(c.post, c.arg("heap")),
        c.post.c_len(EL, c.arg("heap")) == c.pre.c_len(EL, c.arg("heap")) + 1,
        same_members(c, c.arg("heap"), extra=c.arg("item")),
    ),
    note="CPython heapq.heappush: on a list that satisfies the heap invariant w.r.t. a strict weak order `<`, inserts the item and keeps the invariant",
    props=P16,
)

Contract(
    "heapq.heappop",
    params={"heap": EL},
    ret=S.Event.ty,
    trusted=True,
    requires=lambda c: {"heap_ok": is_heap(c.pre, c.arg("heap"))},
    raises={"IndexError": lambda c: c.pre.c_len(EL, c.arg("heap")) == 0},
    modifies=_lst_mod,
    ensures=lambda c: z3.And(
        is_heap(c.post, c.arg("heap")),
        c.post.c_len(EL, c.arg("heap")) == c.pre.c_len(EL, c.arg("heap")) - 1,
        mem(c.pre, c.arg("heap"), c.res),
        minimal(c.pre, c.pre, c.arg("heap"), c.res),
        same_members(c, c.arg("heap"), removed=c.res),
    ),
    note="CPython heapq.heappop: returns heap[0], which is a minimum of a valid heap under a strict weak order (lemma event.strict_weak_order)",
    props=P16,
)

Contract(
    "heapq.heapify",
    params={"x": EL},
    trusted=True,
    modifies=lambda c: lst_mod(c, c.arg("x")),
    ensures=lambda c: z3.And(
        is_heap(c.post, c.arg("x")),
        c.post.c_len(EL, c.arg("x")) == c.pre.c_len(EL, c.arg("x")),
        same_members(c, c.arg("x")),
    ),
    note="CPython heapq.heapify: permutes the list into a valid heap",
    props=P16,
)

QUEUE = "simulator.EventQueue"
_q_mod = lambda c: lst_mod(c, q_list(c.pre, c.arg("self")))

Contract(
    "simulator.EventQueue.add_event",
    params={"self": S.EventQueue.ty, "event": S.Event.ty},
    requires=lambda c: {"heap_ok": is_heap(c.pre, q_list(c.pre, c.arg("self")))},
    modifies=_q_mod,
    ensures=lambda c: {
        "add.heap_ok": is_heap(c.post, q_list(c.pre, c.arg("self"))),
        "add.content": same_members(c, q_list(c.pre, c.arg("self")), extra=c.arg("event")),
        "add.len": c.post.c_len(EL, q_list(c.pre, c.arg("self"))) == c.pre.c_len(EL, q_list(c.pre, c.arg("self"))) + 1,
    },
    props=P16,
)

Contract(
    "simulator.EventQueue.next",
    params={"self": S.EventQueue.ty},
    ret=S.Event.ty,
    requires=lambda c: {"heap_ok": is_heap(c.pre, q_list(c.pre, c.arg("self")))},
    raises={"IndexError": lambda c: c.pre.c_len(EL, q_list(c.pre, c.arg("self"))) == 0},
    modifies=_q_mod,
    ensures=lambda c: {
        "next.is_minimum": minimal(c.pre, c.pre, q_list(c.pre, c.arg("self")), c.res),
        "next.was_member": mem(c.pre, q_list(c.pre, c.arg("self")), c.res),
        "next.heap_ok": is_heap(c.post, q_list(c.pre, c.arg("self"))),
        "next.content": same_members(c, q_list(c.pre, c.arg("self")), removed=c.res),
        "next.len": c.post.c_len(EL, q_list(c.pre, c.arg("self"))) == c.pre.c_len(EL, q_list(c.pre, c.arg("self"))) - 1,
    },
    props=P16,
)

Contract(
    "simulator.EventQueue.reheapify",
    params={"self": S.EventQueue.ty},
    modifies=_q_mod,
    ensures=lambda c: {
        "reheapify.heap_ok": is_heap(c.post, q_list(c.pre, c.arg("self"))),
        "reheapify.content": same_members(c, q_list(c.pre, c.arg("self"))),
        "reheapify.len": c.post.c_len(EL, q_list(c.pre, c.arg("self"))) == c.pre.c_len(EL, q_list(c.pre, c.arg("self"))),
    },
    props=P16,
)

Contract(
    "simulator.EventQueue.remove_event",
    params={"self": S.EventQueue.ty, "event": S.Event.ty},
    raises={"ValueError": lambda c: z3.Not(mem(c.pre, q_list(c.pre, c.arg("self")), c.arg("event")))},
    modifies=_q_mod,
    ensures=lambda c: {
        "remove.heap_ok": is_heap(c.post, q_list(c.pre, c.arg("self"))),
        "remove.content": same_members(c, q_list(c.pre, c.arg("self")), removed=c.arg("event")),
        "remove.len": c.post.c_len(EL, q_list(c.pre, c.arg("self"))) == c.pre.c_len(EL, q_list(c.pre, c.arg("self"))) - 1,
    },
    note="remove_event does not need a valid heap on entry (it re-heapifies); it removes the first list element identical to `event`",
    props=P16,
)

Contract(
    "simulator.EventQueue.peek",
    params={"self": S.EventQueue.ty},
    ret=S.nullable(EVENT),
    requires=lambda c: {"heap_ok": is_heap(c.pre, q_list(c.pre, c.arg("self")))},
    ensures=lambda c: {
        "peek.none_iff_empty": (c.res == 0) == (c.pre.c_len(EL, q_list(c.pre, c.arg("self"))) == 0),
        "peek.is_root": z3.Implies(c.res != 0, c.res == c.pre.l_elem(EL, q_list(c.pre, c.arg("self")), 0)),
        # C16/C03: the event the main loop looks at is an earliest pending one
        "peek.earliest": z3.Implies(c.res != 0, earliest(c.pre, q_list(c.pre, c.arg("self")), c.res)),
        "peek.is_member": z3.Implies(c.res != 0, mem(c.pre, q_list(c.pre, c.arg("self")), c.res)),
    },
    exit_facts=lambda c: [root_earliest_fact(c.pre, q_list(c.pre, c.arg("self"))), Fact("list.mem_def", c.pre.l_mem_def(EL, q_list(c.pre, c.arg("self"))))],
    props=P16 + ("C03",),
)

Contract(
    "simulator.EventQueue.__len__",
    params={"self": S.EventQueue.ty},
    ret=T.INT,
    ensures=lambda c: {"len.post": c.res == c.pre.c_len(EL, q_list(c.pre, c.arg("self")))},
    props=P16,
)


# ---------------------------------------------------------------------------------------------
# lemmas over the contracts
@lemma("C16")
def time_order_lemmas():
    a, b, c = [mk(z3.Int("t%d" % i), z3.Int("u%d" % i)) for i in range(3)]
    rng = [z3.And(t_unit(x) >= 0, t_unit(x) <= 2) for x in (a, b, c)]
    lt = lambda x, y: us(x) < us(y)  # lt.iff
    eq = lambda x, y: us(x) == us(y)  # eq.iff
    # derived operators as functools.total_ordering defines them from __lt__ and __eq__
    le = lambda x, y: z3.Or(lt(x, y), eq(x, y))
    gt = lambda x, y: z3.And(z3.Not(lt(x, y)), z3.Not(eq(x, y)))
    ge = lambda x, y: z3.Not(lt(x, y))
    add_us = lambda x, y: us(x) + us(y)  # add.post gives us(x+y)
    return [
        ("order.trichotomy", rng, z3.Or(z3.And(lt(a, b), z3.Not(eq(a, b)), z3.Not(lt(b, a))), z3.And(z3.Not(lt(a, b)), eq(a, b), z3.Not(lt(b, a))), z3.And(z3.Not(lt(a, b)), z3.Not(eq(a, b)), lt(b, a)))),
        ("order.transitive", rng + [lt(a, b), lt(b, c)], lt(a, c)),
        ("order.eq_transitive", rng + [eq(a, b), eq(b, c)], eq(a, c)),
        ("order.derived_consistent", rng, z3.And(le(a, b) == z3.Not(gt(a, b)), ge(a, b) == z3.Not(lt(a, b)), gt(a, b) == lt(b, a))),
        ("hash.equal_values_hash_equal", rng + [eq(a, b)], us(a) == us(b)),
        ("add.monotone", rng + [lt(a, b)], add_us(a, c) < add_us(b, c)),
        ("sub.add.inverse", rng, (us(a) - us(b)) + us(b) == us(a)),
        ("units.exact", [], z3.And(factor(z3.IntVal(0)) == 1, factor(z3.IntVal(1)) == 1000, factor(z3.IntVal(2)) == 1000000)),
    ]


@lemma("C16")
def event_strict_weak_order():
    h = H.Heap("L")
    a, b, c = z3.Ints("ea eb ec")
    valid = [valid_event(h, x) for x in (a, b, c)]
    rng = []
    for x in (a, b, c):
        rng.append(z3.And(ev_type(h, x) >= 0, ev_type(h, x) < len(ET_MEMBERS)))
        rng.append(z3.And(t_unit(ev_time(h, x)) >= 0, t_unit(ev_time(h, x)) <= 2))
    ax = str_order_axioms() + rng + valid
    lt = lambda x, y: ev_lt(h, x, y)
    inc = lambda x, y: z3.And(z3.Not(lt(x, y)), z3.Not(lt(y, x)))
    ta, tb = us(ev_time(h, a)), us(ev_time(h, b))
    return [
        ("event.swo.irreflexive", ax, z3.Not(lt(a, a))),
        ("event.swo.asymmetric", ax + [lt(a, b)], z3.Not(lt(b, a))),
        ("event.swo.transitive", ax + [lt(a, b), lt(b, c)], lt(a, c)),
        ("event.swo.incomparability_transitive", ax + [inc(a, b), inc(b, c)], inc(a, c)),
        ("event.key.time_then_priority", ax + [lt(a, b)], z3.Or(ta < tb, z3.And(ta == tb, prio(ev_type(h, a)) <= prio(ev_type(h, b))))),
        ("event.key.earlier_time_first", ax + [ta < tb], lt(a, b)),
        ("event.key.priority_at_equal_time", ax + [ta == tb, prio(ev_type(h, a)) < prio(ev_type(h, b))], lt(a, b)),
        (
            "event.key.documented_priority",
            [],
            z3.And(
                prio(et("TASK_FINISHED")) < prio(et("TASK_RELEASE")),
                prio(et("TASK_RELEASE")) < prio(et("TASK_PLACEMENT")),
                prio(et("TASK_CANCEL")) < prio(et("TASK_FINISHED")),
                prio(et("TASK_PLACEMENT")) < prio(et("SCHEDULER_START")),
                prio(et("SCHEDULER_START")) < prio(et("SCHEDULER_FINISHED")),
                prio(et("SCHEDULER_FINISHED")) < prio(et("SIMULATOR_END")),
            ),
        ),
    ]


@lemma("C16")
def heap_root_earliest():
    """is_heap(lst) => every element is timed at or after the root: induction on the index k (parent (k-1)//2 < k)."""
    h = H.Heap("HR")
    lst, k = z3.Ints("hr_lst hr_k")
    j = z3.Int("hr_j")
    el = lambda i: h.l_elem(EL, lst, i)
    tm = lambda i: us(ev_time(h, el(i)))
    ih = z3.ForAll([j], z3.Implies(z3.And(0 <= j, j < k), tm(j) >= tm(0)), patterns=[el(j)])
    return [
        ("heap.root_earliest.base", [], tm(0) >= tm(0)),
        ("heap.root_earliest.step", [is_heap(h, lst), 0 < k, k < h.c_len(EL, lst), ih], tm(k) >= tm(0)),
    ]


@lemma("C16")
def pops_nondecreasing():
    """Two consecutive pops r1, r2 (contracts of `next`): r2 was a member when r1 was the minimum."""
    h = H.Heap("P")
    lst, r1, r2 = z3.Ints("lst r1 r2")

    class C:  # a minimal two-state context
        pass

    h2 = H.Heap("P2")
    # event fields are not touched by `next` (frame of its contract): same field arrays in both states
    for cls, fld in ((EVENT, "_time"), (EVENT, "_event_type"), (EVENT, "_task"), (TASK, "_name"), (TASK, "_task_graph")):
        name, _, arr = h.fld_arr(cls, fld)
        h2.set(name, arr)
    c = C()
    c.pre, c.post = h, h2
    assume = [minimal(h, h, lst, r1), same_members(c, lst, removed=r1), mem(h2, lst, r2)]
    return [("queue.pops_nondecreasing", assume, z3.Not(ev_lt(h, r2, r1)))]


# ---------------------------------------------------------------------------------------------
# scans
def _event_constructions():
    tree = module_ast("simulator")
    for n in ast.walk(tree):
        if isinstance(n, ast.Call) and isinstance(n.func, ast.Name) and n.func.id == "Event":
            yield n


@scan("C16")
def scan_event_sites():
    out = []
    bad = []
    count = 0
    for call in _event_constructions():
        count += 1
        kws = {k.arg: k.value for k in call.keywords}
        tnode = kws.get("event_type") or (call.args[0] if call.args else None)
        ttxt = ast.unparse(tnode) if tnode is not None else "?"
        if ttxt.startswith("EventType."):
            name = ttxt.split(".")[1]
            has_task = "task" in kws and not (isinstance(kws["task"], ast.Constant) and kws["task"].value is None)
            if name not in TASK_TYPES and has_task:
                bad.append("line %d: %s constructed with a task" % (call.lineno, name))
        elif ttxt.endswith(".event_type") and "task" in kws and ast.unparse(kws["task"]) == ttxt[: -len(".event_type")] + ".task":
            pass  # re-creation of an existing (valid) event: same type, same task
        else:
            # event type computed: must be one of the task types on every branch (checked textually)
            names = [x for x in ET_MEMBERS if ("EventType." + x) in ttxt]
            if not names or any(x not in TASK_TYPES for x in names) and "task" in kws:
                bad.append("line %d: event type expression %s with task" % (call.lineno, ttxt))
    out.append(("event.sites.valid", count > 0 and not bad, "%d Event(...) construction sites in simulator.py; offending: %s" % (count, bad)))
    return out


@scan("C16")
def scan_inplace_writes():
    """In-place writes to an Event's / EventTime's ordering key outside constructors must be exactly
    the sites that are under the `reheapify` obligation."""
    import os
    from pyvc.registry import REPO

    sites = []
    for root, _, files in os.walk(REPO):
        if any(p in root for p in ("/tests", "/scripts", "/.git", "/schedulers/tetrisched", "/experiments")):
            continue
        for fn in files:
            if not fn.endswith(".py"):
                continue
            path = os.path.join(root, fn)
            rel = os.path.relpath(path, REPO)
            try:
                tree = ast.parse(open(path).read())
            except SyntaxError:
                continue

            def visit(node, clsname, fname):
                for ch in ast.iter_child_nodes(node):
                    if isinstance(ch, ast.ClassDef):
                        visit(ch, ch.name, None)
                    elif isinstance(ch, ast.FunctionDef):
                        visit(ch, clsname, ch.name)
                    else:
                        tgts = []
                        if isinstance(ch, ast.Assign):
                            tgts = ch.targets
                        elif isinstance(ch, (ast.AugAssign, ast.AnnAssign)):
                            tgts = [ch.target]
                        for t in tgts:
                            if isinstance(t, ast.Attribute) and t.attr in ("_time", "_unit", "_event_type"):
                                on_self = isinstance(t.value, ast.Name) and t.value.id == "self"
                                if on_self and (clsname not in ("Event", "EventTime") or fname == "__init__"):
                                    continue
                                sites.append((rel, fname, ch.lineno, ast.unparse(t)))
                        visit(ch, clsname, fname)

            visit(tree, None, None)
    sites = sorted(set(sites))
    expect = {("simulator.py", "__create_events_from_task_placement", "cached_placement_event._time"), ("simulator.py", "__handle_task_release", "self._next_scheduler_event._time")}
    got = {(a, b, d) for a, b, c, d in sites}
    return [("retime.sites.exactly_the_two_known", got == expect, "in-place writes to event keys: %s" % (sites,))]


assumption("C16", "IEEE-754: int(time * factor) with factor in {1, 1e3, 1e6} is exact for |time*factor| < 2^53 (floats are modelled as mathematical reals); the z3 FP lemma did not close (DESIGN 3.3)")
assumption("C16", "dictionary/heap keys: str `<` is modelled only as a strict total order")


# ---- EventQueue.get_next_event_of_type : the earliest pending event of a type (used for the next scheduler start, C05) --
def _gnet_ens(c):
    lst = q_list(c.pre, c.arg("self"))
    ty_ = c.arg("event_type")
    e = z3.Int(H.fresh_name("gn_e"))
    of_type = lambda x: z3.And(mem(c.pre, lst, x), ev_type(c.pre, x) == ty_)
    return {
        "next_of_type.none_iff_no_such_event": (c.res == 0) == z3.Not(z3.Exists([e], of_type(e))),
        "next_of_type.is_pending_event_of_that_type": z3.Implies(c.res != 0, of_type(c.res)),
        # no pending event of that type comes before it in the event order (time, priority, task name)
        "next_of_type.is_first": z3.Implies(c.res != 0, z3.ForAll([e], z3.Implies(of_type(e), z3.Not(ev_lt(c.pre, e, c.res))), patterns=[mem(c.pre, lst, e)])),
    }


Contract(
    "simulator.EventQueue.get_next_event_of_type",
    params={"self": S.EventQueue.ty, "event_type": S.EventType.ty},
    ret=S.nullable(EVENT),
    requires=lambda c: {"events_not_none": z3.ForAll([z3.Int("gq_i")], z3.Implies(z3.And(0 <= z3.Int("gq_i"), z3.Int("gq_i") < c.pre.c_len(EL, q_list(c.pre, c.arg("self")))), c.pre.l_elem(EL, q_list(c.pre, c.arg("self")), z3.Int("gq_i")) != 0), patterns=[c.pre.l_elem(EL, q_list(c.pre, c.arg("self")), z3.Int("gq_i"))])},
    ensures=_gnet_ens,
    entry_facts=lambda c: [Fact("list.mem_def", c.pre.l_mem_def(EL, q_list(c.pre, c.arg("self")))), Fact("list.index_mem", c.pre.l_index_mem(EL, q_list(c.pre, c.arg("self"))))],
    allocates=True,
    note="filter + min over the pending events with Event.__lt__ (min's library contract: a member that no member is smaller than)",
    props=("C16", "C05"),
)
