"""C18: TaskGraph.get_schedulable_tasks -- the offer computed for a policy (selection loop proved; the estimate
propagation of phase 1 only has to stay inside its own local containers: none of the clauses depends on its values)."""
import z3

from pyvc import ty as T
from pyvc import heap as H
from pyvc.engine import Fact, Step
from pyvc.registry import ANY, CLASSES, Contract, Loop, declare_enum
from contracts import shapes as S_
from contracts.c_utils import ETy, OptET, us
from contracts.c_tasks import TASK, VIRTUAL, RELEASED, SCHEDULED, RUNNING, PREEMPTED, EVICTED, COMPLETED, CANCELLED, wf_task, some, get
from contracts.c_taskgraph import TG, TGR, GRAPH, Adj, TaskList, g_children, g_parents, closed_graph, task_state, in_graph, n_children, child_at0
from contracts.c_simulator import WPS

P18 = ("C18",)
Est = T.Dict(S_.TASKR, ETy)
PLACEMENT = "workload.placement.Placement"


def node_wf(h, g):
    """every node of the graph (and every child) is a non-null, well-formed task; a SCHEDULED task carries its placement"""
    t, j = z3.Int(H.fresh_name("nw_t")), z3.Int(H.fresh_name("nw_j"))
    pl_ = lambda x: h.rd(x, TASK, "_scheduler_placement")[1]
    ok = lambda x: z3.And(
        x > 0,
        h.cls_tag(x) == CLASSES[TASK].code,
        wf_task(h, x),
        z3.Implies(task_state(h, x) == SCHEDULED, z3.And(pl_(x) != 0, some(h.rd(pl_(x), PLACEMENT, "_placement_time")[1]))),
    )
    return z3.And(
        z3.ForAll([t], z3.Implies(in_graph(h, g, t), z3.And(ok(t), h.d_val(Adj, g_children(h, g), t) != 0)), patterns=[in_graph(h, g, t)]),
        z3.ForAll([t, j], z3.Implies(z3.And(in_graph(h, g, t), 0 <= j, j < n_children(h, g, t)), z3.And(ok(child_at0(h, g, t, j)), in_graph(h, g, child_at0(h, g, t, j)))), patterns=[child_at0(h, g, t, j)]),
    )


Contract(
    TG + ".resolve_conditional",
    params={"self": TGR, "task": S_.TASKR, "policy": T.OPAQUE, "branch_prediction_accuracy": T.OPAQUE},
    ret=TaskList,
    trusted=True,
    may_raise=("ValueError", "RuntimeError"),
    allocates=True,
    ensures=lambda c: z3.And(
        c.res != 0,
        z3.Or(c.res >= c.alloc0, c.res == c.pre.d_val(Adj, g_children(c.pre, c.arg("self")), c.arg("task"))),
        z3.ForAll(
            [z3.Int("rc_j")],
            z3.Implies(
                z3.And(0 <= z3.Int("rc_j"), z3.Int("rc_j") < c.post.c_len(TaskList, c.res)),
                z3.Exists([z3.Int("rc_i")], z3.And(0 <= z3.Int("rc_i"), z3.Int("rc_i") < n_children(c.pre, c.arg("self"), c.arg("task")), child_at0(c.pre, c.arg("self"), c.arg("task"), z3.Int("rc_i")) == c.post.l_elem(TaskList, c.res, z3.Int("rc_j")))),
            ),
            patterns=[c.post.l_elem(TaskList, c.res, z3.Int("rc_j"))],
        ),
    ),
    note="TaskGraph.resolve_conditional: some list of children of the task (which ones depends on the branch prediction policy and, for RANDOM, on the seeded generator); no heap effect. Only phase 1 of get_schedulable_tasks (estimates) uses it",
    props=P18,
)

Contract(
    GRAPH + ".topological_sort",
    params={"self": T.Ref(GRAPH)},
    ret=TaskList,
    trusted=True,
    allocates=True,
    may_raise=("RuntimeError",),
    ensures=lambda c: z3.And(
        c.res >= c.alloc0,
        z3.ForAll([z3.Int("ts_x")], c.post.l_mem(TaskList, c.res, z3.Int("ts_x")) == in_graph(c.pre, c.arg("self"), z3.Int("ts_x")), patterns=[c.post.l_mem(TaskList, c.res, z3.Int("ts_x")), in_graph(c.pre, c.arg("self"), z3.Int("ts_x"))]),
    ),
    note="Graph.topological_sort: a fresh list holding exactly the nodes of the graph (that it lists each node once, parents first, and reports cycles is C17: bounded graphs stand-in); RuntimeError on a cycle",
    props=P18,
)


def _gst_requires(c):
    g = c.arg("self")
    return {
        "maps_distinct": g_children(c.pre, g) != g_parents(c.pre, g),
        "nodes_wf": node_wf(c.pre, g),
        "lookahead_nonneg": us(c.arg("lookahead")) >= 0,
    }


def _fresh_locals(c, L, names):
    out = []
    for nm in names:
        if L.has(nm):
            v = L.var(nm)
            out.append(z3.And(v >= c.alloc0, v < c.run.cur_alloc()))
    return z3.And(*out) if out else z3.BoolVal(True)


def _states_same(c, h):
    return z3.And(*[h.fld_arr(TASK, f)[2] == c.pre.fld_arr(TASK, f)[2] for f in ("_state", "_release_time", "_remaining_time", "_scheduler_placement")])


def _phase1_inv(c, L):
    return {
        "locals_fresh": _fresh_locals(c, L, ("task_queue", "estimated_completion_time")),
        "queue_and_map_distinct": L.var("task_queue") != 0,
        "tasks_untouched": _states_same(c, c.post),
        "queued_tasks_are_wf_nodes": z3.ForAll(
            [z3.Int("p1_j")],
            z3.Implies(
                z3.And(0 <= z3.Int("p1_j"), z3.Int("p1_j") < c.post.c_len(TaskList, L.var("task_queue"))),
                z3.And(in_graph(c.pre, c.arg("self"), c.post.l_elem(TaskList, L.var("task_queue"), z3.Int("p1_j"))), c.post.d_dom(Est, L.var("estimated_completion_time"), c.post.l_elem(TaskList, L.var("task_queue"), z3.Int("p1_j")))),
            ),
            patterns=[c.post.l_elem(TaskList, L.var("task_queue"), z3.Int("p1_j"))],
        ),
    }


def _phase1_inner_inv(c, L):
    out = dict(_phase1_inv(c, L))
    out["iterated_list_is_not_a_local_container"] = z3.And(L.cont.z != L.var("task_queue"), L.cont.z != 0)
    return out


def _phase1_mod(c):
    fr = c.run.frames[-1].env
    q, e = fr.get("task_queue"), fr.get("estimated_completion_time")
    out = {}
    for p_ in ("len", "elem"):
        out[c.pre.carr(TaskList, p_)[0]] = [q.z]
    for p_ in ("len", "keys", "idx", "dom", "val"):
        out[c.pre.carr(Est, p_)[0]] = [e.z]
    return out


def offered_ok(c, h, x, g=None):
    """what C18 allows to be offered from the graph itself"""
    g = c.arg("self") if g is None else g
    s = task_state(c.pre, x)
    return z3.And(in_graph(c.pre, g, x), s != COMPLETED, s != CANCELLED, s != RUNNING, z3.Implies(s == SCHEDULED, c.arg("retract_schedules")))


def must_offer(c, x, g=None):
    """C18: what is always offered -- a released task whose release time has arrived (within the lookahead), and a
    preempted / evicted task"""
    g = c.arg("self") if g is None else g
    s = task_state(c.pre, x)
    rel = c.pre.rd(x, TASK, "_release_time")[1]
    return z3.And(in_graph(c.pre, g, x), z3.Or(z3.And(s == RELEASED, us(rel) <= us(c.arg("time")) + us(c.arg("lookahead"))), s == PREEMPTED, s == EVICTED))


def _select_inv(c, L):
    h = c.post
    tasks = L.var("tasks")
    x, k = z3.Int(H.fresh_name("si_x")), z3.Int(H.fresh_name("si_k"))
    order = L.cont.z  # the list being iterated (the topological order)
    el = lambda j: L.head.l_elem(TaskList, order, j)
    return {
        "locals_fresh": _fresh_locals(c, L, ("tasks",)),
        "tasks_untouched": _states_same(c, h),
        "only_allowed": z3.ForAll([x], z3.Implies(h.l_mem(TaskList, tasks, x), offered_ok(c, h, x)), patterns=[h.l_mem(TaskList, tasks, x)]),
        "nothing_starved_so_far": z3.ForAll([k], z3.Implies(z3.And(0 <= k, k < L.i, must_offer(c, el(k))), h.l_mem(TaskList, tasks, el(k))), patterns=[el(k)]),
    }


def _select_mod(c):
    fr = c.run.frames[-1].env
    t = fr.get("tasks")
    return {c.pre.carr(TaskList, p_)[0]: [t.z] for p_ in ("len", "elem")}


def _gst_ens(c):
    g = c.arg("self")
    x = z3.Int(H.fresh_name("ge_x"))
    pre_ = c.arg("preemption")
    return {
        # C18: no ready task is starved
        "frontier.no_starvation": z3.ForAll([x], z3.Implies(must_offer(c, x), c.post.l_mem(TaskList, c.res, x)), patterns=[in_graph(c.pre, g, x)]),
        # C18: never a completed or cancelled task, a scheduled task only with retraction, a running one only with preemption
        "frontier.only_allowed_without_preemption": z3.Implies(z3.Not(pre_), z3.ForAll([x], z3.Implies(c.post.l_mem(TaskList, c.res, x), offered_ok(c, c.post, x)), patterns=[c.post.l_mem(TaskList, c.res, x)])),
        "frontier.task_states_untouched": _states_same(c, c.post),
    }


Contract(
    TG + ".get_schedulable_tasks",
    params={
        "self": TGR,
        "time": ETy,
        "lookahead": ETy,
        "preemption": T.BOOL,
        "retract_schedules": T.BOOL,
        "worker_pools": S_.nullable(WPS),
        "policy": T.OPAQUE,
        "branch_prediction_accuracy": T.OPAQUE,
        "release_taskgraphs": T.BOOL,
        "debug": T.BOOL,
    },
    ret=TaskList,
    requires=_gst_requires,
    may_raise=("ValueError", "RuntimeError", "AttributeError"),
    raise_unchanged=False,
    modifies=lambda c: {},
    loops={
        0: Loop(inv=_phase1_inv, modifies=_phase1_mod),
        1: Loop(inv=_phase1_inv, modifies=_phase1_mod),
        2: Loop(inv=_phase1_inner_inv, modifies=_phase1_mod),
        3: Loop(inv=_select_inv, modifies=_select_mod),
    },
    locals={"task_queue": TaskList, "estimated_completion_time": Est, "tasks": TaskList, "children_tasks": TaskList},
    ensures=_gst_ens,
    entry_facts=lambda c: [closed_graph(c, c.arg("self"))],
    allocates=True,
    note="phase 1 (estimated completion times) is only shown to stay inside its local work list and map; exceptions (unknown state, cycle, a task without strategies) propagate unconstrained",
    props=P18,
)


# =================================================================================================
# Workload.get_schedulable_tasks : the offer over ALL task graphs of the workload (no graph is skipped)
# =================================================================================================
WORKLOAD = "workload.workload.Workload"
TGMap = T.Dict(T.STR, TGR)


def wl_graphs(h, w):
    return h.rd(w, WORKLOAD, "_task_graphs")[1]


def graph_at(h, w, k):
    d = wl_graphs(h, w)
    return h.d_val(TGMap, d, h.d_key(TGMap, d, k))


def n_graphs(h, w):
    return h.c_len(TGMap, wl_graphs(h, w))


def _wgst_requires(c):
    w = c.arg("self")
    k = z3.Int(H.fresh_name("wg_k"))
    gk = graph_at(c.pre, w, k)
    return {
        "graphs_wf": z3.ForAll([k], z3.Implies(z3.And(0 <= k, k < n_graphs(c.pre, w)), z3.And(gk != 0, g_children(c.pre, gk) != g_parents(c.pre, gk), node_wf(c.pre, gk))), patterns=[gk]),
        "lookahead_nonneg": us(c.arg("lookahead")) >= 0,
    }


def closed_workload(c):
    """heap closedness: the graphs of the workload, their adjacency lists and the tasks in them were allocated before entry"""
    w = c.arg("self")
    k, x, j = z3.Int(H.fresh_name("cw_k")), z3.Int(H.fresh_name("cw_x")), z3.Int(H.fresh_name("cw_j"))
    gk = graph_at(c.pre, w, k)
    rng = z3.And(0 <= k, k < n_graphs(c.pre, w))
    facts = [wl_graphs(c.pre, w) < c.alloc0, z3.ForAll([k], z3.Implies(rng, z3.And(gk > 0, gk < c.alloc0, g_children(c.pre, gk) < c.alloc0, g_parents(c.pre, gk) < c.alloc0)), patterns=[gk])]
    for dsel in (g_children, g_parents):
        d = dsel(c.pre, gk)
        lst = c.pre.d_val(Adj, d, x)
        facts.append(z3.ForAll([k, x], z3.Implies(z3.And(rng, c.pre.d_dom(Adj, d, x)), z3.And(lst > 0, lst < c.alloc0, x < c.alloc0)), patterns=[c.pre.d_val(Adj, d, x)]))
        facts.append(z3.ForAll([k, x, j], z3.Implies(z3.And(rng, c.pre.d_dom(Adj, d, x), 0 <= j, j < c.pre.c_len(TaskList, lst)), z3.And(c.pre.l_elem(TaskList, lst, j) > 0, c.pre.l_elem(TaskList, lst, j) < c.alloc0)), patterns=[c.pre.l_elem(TaskList, lst, j)]))
    return Fact("heap.closed", z3.And(*facts))


def _wgst_inv(c, L):
    w = c.arg("self")
    h = c.post
    out = L.var("schedulable_tasks")
    k, x = z3.Int(H.fresh_name("wi_k")), z3.Int(H.fresh_name("wi_x"))
    gk = graph_at(c.pre, w, k)
    return {
        "list_fresh": z3.And(out >= c.alloc0, out < c.run.cur_alloc()),
        # C18 at workload level: nothing that must be offered by an already visited graph is missing
        "visited_graphs_not_starved": z3.ForAll([k, x], z3.Implies(z3.And(0 <= k, k < L.i, k < n_graphs(c.pre, w), must_offer(c, x, gk)), h.l_mem(TaskList, out, x)), patterns=[z3.MultiPattern(gk, in_graph(c.pre, gk, x))]),
        "only_allowed_without_preemption": z3.Implies(
            z3.Not(c.arg("preemption")),
            z3.ForAll([x], z3.Implies(h.l_mem(TaskList, out, x), z3.Exists([k], z3.And(0 <= k, k < L.i, k < n_graphs(c.pre, w), offered_ok(c, h, x, gk)))), patterns=[h.l_mem(TaskList, out, x)]),
        ),
    }


def _wgst_mod(c):
    fr = c.run.frames[-1].env
    t = fr.get("schedulable_tasks")
    return {c.pre.carr(TaskList, p_)[0]: [t.z] for p_ in ("len", "elem")}


def _wgst_ens(c):
    w = c.arg("self")
    k, x = z3.Int(H.fresh_name("we_k")), z3.Int(H.fresh_name("we_x"))
    gk = graph_at(c.pre, w, k)
    n = n_graphs(c.pre, w)
    return {
        # C18: no ready task of ANY task graph of the workload is starved (no graph is skipped)
        "frontier.no_graph_skipped": z3.ForAll([k, x], z3.Implies(z3.And(0 <= k, k < n, must_offer(c, x, gk)), c.post.l_mem(TaskList, c.res, x)), patterns=[z3.MultiPattern(gk, in_graph(c.pre, gk, x))]),
        "frontier.only_allowed_without_preemption": z3.Implies(
            z3.Not(c.arg("preemption")),
            z3.ForAll([x], z3.Implies(c.post.l_mem(TaskList, c.res, x), z3.Exists([k], z3.And(0 <= k, k < n, offered_ok(c, c.post, x, gk)))), patterns=[c.post.l_mem(TaskList, c.res, x)]),
        ),
    }


Contract(
    WORKLOAD + ".get_schedulable_tasks#body",
    params={
        "self": T.Ref(WORKLOAD),
        "time": ETy,
        "lookahead": ETy,
        "preemption": T.BOOL,
        "retract_schedules": T.BOOL,
        "worker_pools": S_.nullable(WPS),
        "policy": T.OPAQUE,
        "branch_prediction_accuracy": T.OPAQUE,
        "release_taskgraphs": T.BOOL,
        "debug": T.BOOL,
    },
    ret=TaskList,
    requires=_wgst_requires,
    may_raise=("ValueError", "RuntimeError", "AttributeError"),
    raise_unchanged=False,
    modifies=lambda c: {},
    loops={0: Loop(inv=_wgst_inv, modifies=_wgst_mod)},
    locals={"schedulable_tasks": TaskList},
    ensures=_wgst_ens,
    entry_facts=lambda c: [closed_workload(c)],
    allocates=True,
    note="the workload-level offer is the concatenation of the per-graph offers over EVERY task graph; the callers (EDF / FIFO / LSF) use the plain contract (offered tasks are well-formed tasks)",
    props=P18,
)
