"""Shape declarations (field types) of the repository classes the contracts talk about.

Each shape is checked against the class's `__init__` by `scan_shapes` (every `self.x = ...` there
must be declared; undeclared attributes make a function that touches them *rejected*, never
silently ignored).
"""
import ast

from pyvc import ty as T
from pyvc.registry import declare_enum, declare_ref, declare_val, find_class, CLASSES
from contracts.c_utils import ETy, OptET, UNIT


def nullable(cls):
    r = T.Ref(cls)
    r.nullable = True
    return r


OptSTR = T.Opt(T.STR)
OptINT = T.Opt(T.INT)

TaskState = declare_enum("workload.tasks.TaskState")
EventType = declare_enum("simulator.EventType")
PlacementType = declare_enum("workload.placement.Placement.PlacementType")

# -- value class: Resource (immutable: `_name`, `_id` only written on fresh instances) --------------
Resource = declare_val("workload.resource.Resource", {"_name": T.STR, "_id": T.STR})
RES = Resource.ty

# -- heap classes -----------------------------------------------------------------------------------
ResVec = T.Dict(RES, T.INT, default="int")
AllocList = T.List(T.Tup(RES, T.INT))
AllocMap = T.Dict(T.Ref(None), AllocList, default="list")

Resources = declare_ref(
    "workload.resources.Resources",
    {
        "_logger": T.OPAQUE,
        "_resource_vector": ResVec,
        "_Resources__total_resources": ResVec,
        "_current_allocations": AllocMap,
        "_Resources__virtual": T.BOOL,
    },
)

ExecutionStrategy = declare_ref(
    "workload.strategy.ExecutionStrategy",
    {"_resources": T.Ref("workload.resources.Resources"), "_batch_size": T.INT, "_runtime": ETy, "_id": T.STR, "_hash": T.INT},
)
BatchStrategy = declare_ref("workload.strategy.BatchStrategy", {}, bases=["workload.strategy.ExecutionStrategy"])
ExecutionStrategies = declare_ref("workload.strategy.ExecutionStrategies", {"_strategies": T.List(T.Ref("workload.strategy.ExecutionStrategy"))})

WorkProfile = declare_ref(
    "workload.profile.WorkProfile",
    {
        "_name": T.STR,
        "_id": T.STR,
        "_loading_strategies": T.Ref("workload.strategy.ExecutionStrategies"),
        "_execution_strategies": T.Ref("workload.strategy.ExecutionStrategies"),
        "_next_copy_number": T.INT,
    },
)

Job = declare_ref(
    "workload.jobs.Job",
    {
        "_name": T.STR,
        "_id": T.STR,
        "_profile": T.Ref("workload.profile.WorkProfile"),
        "_slo": ETy,
        "_pipelined": T.BOOL,
        "_conditional": T.BOOL,
        "_probability": T.REAL,
        "_terminal": T.BOOL,
    },
)

Placement = declare_ref(
    "workload.placement.Placement",
    {
        "_placement_type": PlacementType.ty,
        "_computation": T.Ref(None),
        "_placement_time": OptET,
        "_worker_pool_id": OptSTR,
        "_worker_id": OptSTR,
        "_strategy": nullable("workload.strategy.ExecutionStrategy"),
        "_id": T.STR,
    },
)

Preemption = declare_ref(
    "workload.tasks.Task.Preemption",
    {"preemption_time": ETy, "old_worker_pool": OptSTR, "restart_time": OptET, "new_worker_pool": OptSTR},
)

Task = declare_ref(
    "workload.tasks.Task",
    {
        "_logger": T.OPAQUE,
        "_name": T.STR,
        "_task_graph": T.STR,
        "_creating_job": T.Ref("workload.jobs.Job"),
        "_probability": T.REAL,
        "_profile": T.Ref("workload.profile.WorkProfile"),
        "_deadline": ETy,
        "_timestamp": OptINT,
        "_id": T.STR,
        "_hash": T.INT,
        "_intended_release_time": ETy,
        "_release_time": ETy,
        "_scheduling_time": OptET,
        "_scheduler_placement": nullable("workload.placement.Placement"),
        "_start_time": ETy,
        "_cancellation_time": OptET,
        "_completion_time": ETy,
        "_preemptions": T.List(T.Ref("workload.tasks.Task.Preemption")),
        "_remaining_time": OptET,
        # initialised to the int -1 and later an EventTime; None stands for "the int -1 sentinel"
        "_last_step_time": OptET,
        "_state": TaskState.ty,
        "_pre_scheduling_state": TaskState.ty,
        "_worker_pool_id": OptSTR,
    },
    ghost={"$released_once": T.BOOL},
)

Event = declare_ref(
    "simulator.Event",
    {
        "_event_type": EventType.ty,
        "_time": ETy,
        "_task": nullable("workload.tasks.Task"),
        "_task_graph": OptSTR,
        "_placement": nullable("workload.placement.Placement"),
    },
)
EventList = T.List(T.Ref("simulator.Event"))
EventQueue = declare_ref("simulator.EventQueue", {"_event_queue": EventList})


STRAT = T.Ref("workload.strategy.ExecutionStrategy")
BSTRAT = T.Ref("workload.strategy.BatchStrategy")
TASKR = T.Ref("workload.tasks.Task")
PROFR = T.Ref("workload.profile.WorkProfile")
PlacedTasks = T.Dict(TASKR, STRAT)
TaskSet = T.Set(TASKR)
PlacedBatches = T.Dict(BSTRAT, TaskSet)
BatchTasks = T.Dict(BSTRAT, TASKR)
Profiles = T.Dict(PROFR, STRAT)

Worker = declare_ref(
    "workers.workers.Worker",
    {
        "_logger": T.OPAQUE,
        "_name": T.STR,
        "_id": T.STR,
        "_resources": T.Ref("workload.resources.Resources"),
        "_placed_tasks": PlacedTasks,
        "_placed_batches": PlacedBatches,
        "_batch_tasks_for_strategy": BatchTasks,
        "_available_profiles": Profiles,
        "_pending_profiles": Profiles,
    },
)
WORKERR = T.Ref("workers.workers.Worker")
WorkerMap = T.Dict(T.STR, WORKERR)
PoolPlaced = T.Dict(TASKR, T.STR)
WorkerPool = declare_ref(
    "workers.workers.WorkerPool",
    {"_logger": T.OPAQUE, "_name": T.STR, "_workers": WorkerMap, "_scheduler": T.Ref(None), "_id": T.STR, "_placed_tasks": PoolPlaced},
    # ghost view of a pool's occupancy for the scheduling-policy contracts: a version that every successful
    # place_task bumps, and the (task, strategy) of the last placement
    ghost={"$ver": T.INT, "$last_task": T.Ref(None), "$last_strategy": T.Ref(None)},
)
WorkerPool.fields["_scheduler"].nullable = True


def init_assigned_fields(qname):
    node = find_class(qname)
    out = set()
    for st in node.body:
        if isinstance(st, ast.FunctionDef) and st.name == "__init__":
            for n in ast.walk(st):
                if isinstance(n, (ast.Assign, ast.AnnAssign, ast.AugAssign)):
                    tgts = n.targets if isinstance(n, ast.Assign) else [n.target]
                    for t in tgts:
                        if isinstance(t, ast.Attribute) and isinstance(t.value, ast.Name) and t.value.id == "self":
                            a = t.attr
                            if a.startswith("__") and not a.endswith("__"):
                                a = "_" + qname.split(".")[-1] + a
                            out.add(a)
    return out


def scan_shapes(pid_classes):
    """Every attribute assigned in __init__ is declared in the shape (and vice versa, minus ghosts)."""
    res = []
    for q in pid_classes:
        info = CLASSES[q]
        if info.kind == "enum":
            continue
        real = init_assigned_fields(q)
        decl = set(info.fields)
        missing = sorted(real - decl)
        extra = sorted(decl - real)
        # Resource._id etc. are all assigned in __init__; inherited fields are declared on the base
        res.append(("shape." + q, not missing and not extra, "undeclared=%s not-assigned-in-__init__=%s" % (missing, extra)))
    return res
