"""C17 (proof part): the representation invariant of workload.graph.Graph -- the parent map is the inverse of the child
map and every child is a node -- is preserved by Graph.add_child; sources are exactly the parentless nodes.
(The traversals / orders / longest path are decided by the bounded graphs stand-in.)"""
import z3

from pyvc import ty as T
from pyvc import heap as H
from pyvc.engine import Fact, Step
from pyvc.registry import ANY, CLASSES, Contract, Loop
from contracts import shapes as S_
from contracts.c_taskgraph import GRAPH, Adj, TaskList, g_children, g_parents, closed_graph, _adj_mod

P17 = ("C17",)
NODE = S_.TASKR  # the node type of the instances under contract (TaskGraph); nothing below depends on Task fields


def cl(h, g, n):
    return h.d_val(Adj, g_children(h, g), n)


def pl(h, g, n):
    return h.d_val(Adj, g_parents(h, g), n)


def is_node(h, g, n):
    return h.d_dom(Adj, g_children(h, g), n)


def has_pentry(h, g, n):
    return h.d_dom(Adj, g_parents(h, g), n)


def lmem(h, lst, x):
    return h.l_mem(TaskList, lst, x)


def graph_inv_parts(h, g):
    n, m, j = z3.Int(H.fresh_name("gi_n")), z3.Int(H.fresh_name("gi_m")), z3.Int(H.fresh_name("gi_j"))
    return {
        "maps_distinct": z3.And(g_children(h, g) != g_parents(h, g), g_children(h, g) != 0, g_parents(h, g) != 0),
        # every node / parent entry owns its own list object (no list is shared between entries or between the maps)
        "lists_owned": z3.And(
            z3.ForAll([n], z3.Implies(is_node(h, g, n), cl(h, g, n) != 0), patterns=[is_node(h, g, n)]),
            z3.ForAll([n], z3.Implies(has_pentry(h, g, n), pl(h, g, n) != 0), patterns=[has_pentry(h, g, n)]),
            z3.ForAll([n, m], z3.Implies(z3.And(is_node(h, g, n), is_node(h, g, m), n != m), cl(h, g, n) != cl(h, g, m)), patterns=[z3.MultiPattern(cl(h, g, n), cl(h, g, m))]),
            z3.ForAll([n, m], z3.Implies(z3.And(has_pentry(h, g, n), has_pentry(h, g, m), n != m), pl(h, g, n) != pl(h, g, m)), patterns=[z3.MultiPattern(pl(h, g, n), pl(h, g, m))]),
            z3.ForAll([n, m], z3.Implies(z3.And(is_node(h, g, n), has_pentry(h, g, m)), cl(h, g, n) != pl(h, g, m)), patterns=[z3.MultiPattern(cl(h, g, n), pl(h, g, m))]),
        ),
        # C17: every child is itself a node of the graph
        "children_are_nodes": z3.ForAll([n, m], z3.Implies(z3.And(is_node(h, g, n), lmem(h, cl(h, g, n), m)), is_node(h, g, m)), patterns=[lmem(h, cl(h, g, n), m)]),
        # C17: the parent map is the inverse of the child map
        "child_edge_has_parent_entry": z3.ForAll(
            [n, m], z3.Implies(z3.And(is_node(h, g, n), lmem(h, cl(h, g, n), m)), z3.And(has_pentry(h, g, m), lmem(h, pl(h, g, m), n))), patterns=[lmem(h, cl(h, g, n), m)]
        ),
        "parent_entry_has_child_edge": z3.ForAll(
            [n, m], z3.Implies(z3.And(has_pentry(h, g, m), lmem(h, pl(h, g, m), n)), z3.And(is_node(h, g, n), lmem(h, cl(h, g, n), m))), patterns=[lmem(h, pl(h, g, m), n)]
        ),
    }


def _ac_mod(c):
    g, node, child = c.arg("self"), c.arg("node"), c.arg("child")
    out = {}
    for p_ in ("len", "keys", "idx", "dom", "val"):
        out[c.pre.carr(Adj, p_)[0]] = [g_children(c.pre, g), g_parents(c.pre, g)]
    lists = [cl(c.pre, g, node), z3.If(has_pentry(c.pre, g, child), pl(c.pre, g, child), 0), z3.If(is_node(c.pre, g, child), cl(c.pre, g, child), 0)]
    for p_ in ("len", "elem"):
        out[c.pre.carr(TaskList, p_)[0]] = lists
    return out


def _ac_ens(c):
    g, node, child = c.arg("self"), c.arg("node"), c.arg("child")
    x, y = z3.Int(H.fresh_name("ac_x")), z3.Int(H.fresh_name("ac_y"))
    hp, hq = c.pre, c.post
    out = {
        "add_child.child_is_a_node": is_node(hq, g, child),
        "add_child.nodes_only_grow_by_child": z3.ForAll([x], is_node(hq, g, x) == z3.Or(is_node(hp, g, x), x == child), patterns=[is_node(hq, g, x)]),
        # exactly the edge node -> child is added: as a child edge ...
        "add_child.child_edges": z3.ForAll(
            [x, y],
            z3.Implies(is_node(hq, g, x), lmem(hq, cl(hq, g, x), y) == z3.Or(z3.And(is_node(hp, g, x), lmem(hp, cl(hp, g, x), y)), z3.And(x == node, y == child))),
            patterns=[lmem(hq, cl(hq, g, x), y)],
        ),
        # ... and as a parent entry
        "add_child.parent_entries": z3.ForAll(
            [x, y],
            z3.Implies(has_pentry(hq, g, x), lmem(hq, pl(hq, g, x), y) == z3.Or(z3.And(has_pentry(hp, g, x), lmem(hp, pl(hp, g, x), y)), z3.And(x == child, y == node))),
            patterns=[lmem(hq, pl(hq, g, x), y)],
        ),
    }
    for nm, gl in graph_inv_parts(hq, g).items():
        out["add_child.preserves_invariant." + nm] = gl
    return out


def _mem_defs(h, hq, g):
    """definition of list membership for every adjacency list of the graph (lists named in hq, contents in h)"""
    n, e, i = z3.Int(H.fresh_name("md_n")), z3.Int(H.fresh_name("md_e")), z3.Int(H.fresh_name("md_i"))
    out = []
    for lst in (cl(hq, g, n), pl(hq, g, n)):
        out.append(z3.ForAll([n, e], h.l_mem(TaskList, lst, e) == z3.Exists([i], z3.And(0 <= i, i < h.c_len(TaskList, lst), h.l_elem(TaskList, lst, i) == e)), patterns=[h.l_mem(TaskList, lst, e)]))
        out.append(z3.ForAll([n, i], z3.Implies(z3.And(0 <= i, i < h.c_len(TaskList, lst)), h.l_mem(TaskList, lst, h.l_elem(TaskList, lst, i))), patterns=[h.l_elem(TaskList, lst, i)]))
    return Fact("list.mem_def", z3.And(*out))


Contract(
    "workload.graph.Graph.add_child",
    params={"self": T.Ref(GRAPH), "node": NODE, "child": NODE},
    requires=lambda c: dict(graph_inv_parts(c.pre, c.arg("self")), child_not_none=c.arg("child") != 0, node_not_none=c.arg("node") != 0),
    raises={"ValueError": lambda c: z3.Not(is_node(c.pre, c.arg("self"), c.arg("node")))},
    modifies=_ac_mod,
    ensures=_ac_ens,
    entry_facts=lambda c: [closed_graph(c, c.arg("self")), _mem_defs(c.pre, c.pre, c.arg("self"))],
    exit_facts=lambda c: [_mem_defs(c.post, c.post, c.arg("self")), _mem_defs(c.pre, c.pre, c.arg("self"))],
    allocates=True,
    note="node type fixed to Task references (the TaskGraph instantiation); the contract does not depend on it",
    props=P17,
)


def _gs_inv(c, L):
    g = c.arg("self")
    h = c.post
    d = g_children(c.pre, g)
    out = L.var("sources")
    x, k = z3.Int(H.fresh_name("gs_x")), z3.Int(H.fresh_name("gs_k"))
    key = lambda j: c.pre.d_key(Adj, d, j)
    no_parent = lambda hh, n: z3.Or(z3.Not(has_pentry(hh, g, n)), hh.c_len(TaskList, pl(hh, g, n)) == 0)
    return {
        "list_fresh": z3.And(out >= c.alloc0, out < c.run.cur_alloc()),
        "children_map_untouched": z3.And(*[z3.Select(h.carr(Adj, p_)[1], d) == z3.Select(c.pre.carr(Adj, p_)[1], d) for p_ in ("len", "keys", "idx", "dom", "val")]),
        # the defaultdict may have gained empty entries for parentless nodes: who has a parent is unchanged
        "parent_relation_stable": z3.ForAll([x], no_parent(h, x) == no_parent(c.pre, x), patterns=[has_pentry(h, g, x)]),
        "existing_parent_lists_kept": z3.ForAll([x], z3.Implies(has_pentry(c.pre, g, x), z3.And(has_pentry(h, g, x), pl(h, g, x) == pl(c.pre, g, x), h.c_len(TaskList, pl(h, g, x)) == c.pre.c_len(TaskList, pl(c.pre, g, x)))), patterns=[pl(h, g, x)]),
        "new_parent_lists_fresh": z3.ForAll([x], z3.Implies(z3.And(has_pentry(h, g, x), z3.Not(has_pentry(c.pre, g, x))), z3.And(pl(h, g, x) >= c.alloc0, pl(h, g, x) != out)), patterns=[pl(h, g, x)]),
        "only_sources": z3.ForAll([x], z3.Implies(h.l_mem(TaskList, out, x), z3.And(is_node(c.pre, g, x), no_parent(c.pre, x))), patterns=[h.l_mem(TaskList, out, x)]),
        "every_source_so_far": z3.ForAll([k], z3.Implies(z3.And(0 <= k, k < L.i, k < c.pre.c_len(Adj, d), no_parent(c.pre, key(k))), h.l_mem(TaskList, out, key(k))), patterns=[key(k)]),
    }


def _gs_mod(c):
    g = c.arg("self")
    out = _adj_mod(c, g_parents(c.pre, g))
    fr = c.run.frames[-1].env
    lst = fr.get("sources")
    out[c.pre.carr(TaskList, "len")[0]] = [lst.z]
    out[c.pre.carr(TaskList, "elem")[0]] = [lst.z]
    return out


def _gs_ens(c):
    g = c.arg("self")
    d = g_children(c.pre, g)
    x, k = z3.Int(H.fresh_name("ge_x")), z3.Int(H.fresh_name("ge_k"))
    key = lambda j: c.pre.d_key(Adj, d, j)
    no_parent = lambda hh, n: z3.Or(z3.Not(has_pentry(hh, g, n)), hh.c_len(TaskList, pl(hh, g, n)) == 0)
    return {
        # C17: the sources are exactly the nodes without a parent
        "sources.only_parentless_nodes": z3.ForAll([x], z3.Implies(c.post.l_mem(TaskList, c.res, x), z3.And(is_node(c.pre, g, x), no_parent(c.pre, x))), patterns=[c.post.l_mem(TaskList, c.res, x)]),
        "sources.every_parentless_node": z3.ForAll([k], z3.Implies(z3.And(0 <= k, k < c.pre.c_len(Adj, d), no_parent(c.pre, key(k))), c.post.l_mem(TaskList, c.res, key(k))), patterns=[key(k)]),
    }


Contract(
    "workload.graph.Graph.get_sources",
    params={"self": T.Ref(GRAPH)},
    ret=TaskList,
    requires=lambda c: {"maps_distinct": g_children(c.pre, c.arg("self")) != g_parents(c.pre, c.arg("self"))},
    modifies=lambda c: _adj_mod(c, g_parents(c.pre, c.arg("self"))),
    loops={0: Loop(inv=_gs_inv, modifies=_gs_mod)},
    locals={"sources": TaskList},
    entry_facts=lambda c: [closed_graph(c, c.arg("self"))],
    ensures=_gs_ens,
    allocates=True,
    note="the only heap effect is the defaultdict entry created for a parentless node",
    props=P17,
)

Contract(
    "workload.graph.Graph.is_source",
    params={"self": T.Ref(GRAPH), "node": NODE},
    ret=T.BOOL,
    requires=lambda c: {"maps_distinct": g_children(c.pre, c.arg("self")) != g_parents(c.pre, c.arg("self"))},
    raises={"ValueError": lambda c: z3.Not(is_node(c.pre, c.arg("self"), c.arg("node")))},
    modifies=lambda c: _adj_mod(c, g_parents(c.pre, c.arg("self"))),
    ensures=lambda c: {
        "is_source.iff_no_parent": c.res
        == z3.Or(z3.Not(has_pentry(c.pre, c.arg("self"), c.arg("node"))), c.pre.c_len(TaskList, pl(c.pre, c.arg("self"), c.arg("node"))) == 0)
    },
    allocates=True,
    props=P17,
)
