"""Contracts for utils.EventTime (C16, used by everything that touches time)."""
import z3

from pyvc import ty as T
from pyvc.registry import Contract, declare_enum, declare_val

UNIT = declare_enum("utils.EventTime.Unit")
ET = declare_val("utils.EventTime", {"_time": T.INT, "_unit": UNIT.ty})
ETy = ET.ty
OptET = T.Opt(ETy)


def _unit_factor_table():
    # read from the enum body on every run: US=1, MS=1e3, S=1e6 -> integer factors
    out = []
    for name, v in UNIT.ty.members:
        if float(v) != int(v):
            raise RuntimeError("unit value %r is not integral" % v)
        out.append(int(v))
    return out


FACTORS = _unit_factor_table()


def factor(u):
    e = z3.IntVal(FACTORS[-1])
    for k in range(len(FACTORS) - 2, -1, -1):
        e = z3.If(u == k, FACTORS[k], e)
    return e


def t_time(t):
    return T.val_field(ETy, t, "_time")


def t_unit(t):
    return T.val_field(ETy, t, "_unit")


def us(t):
    """The spec function of C16: the value of a time in microseconds."""
    return t_time(t) * factor(t_unit(t))


def mk(time, unit):
    return T.val_mk(ETy, time, unit)


def finer(u1, u2):
    """the finer (smaller-valued) of two units"""
    return z3.If(factor(u1) <= factor(u2), u1, u2)


P16 = ("C16",)

Contract("utils.EventTime.Unit.__lt__", inline=True, props=P16)
Contract("utils.EventTime.Unit.to", inline=True, props=P16)

Contract(
    "utils.EventTime.__init__",
    params={"time": T.INT, "unit": UNIT.ty},
    ensures=lambda c: {"fields": z3.And(t_time(c.res) == c.arg("time"), t_unit(c.res) == c.arg("unit"))},
    drops=("if type(self)._rng is None:",),
    note="dropped: lazy initialisation of the class-level RNG (writes only type(self)._rng)",
    props=P16,
)

Contract(
    "utils.EventTime.to",
    params={"self": ETy, "unit": UNIT.ty},
    ret=ETy,
    raises={"ValueError": lambda c: factor(c.arg("unit")) > factor(t_unit(c.arg("self")))},
    ensures=lambda c: {
        "to.post": z3.And(us(c.res) == us(c.arg("self")), t_unit(c.res) == c.arg("unit")),
    },
    props=P16,
)

Contract(
    "utils.EventTime.__add__",
    params={"self": ETy, "other": ETy},
    ret=ETy,
    ensures=lambda c: {
        "add.post": us(c.res) == us(c.arg("self")) + us(c.arg("other")),
        "add.unit": t_unit(c.res) == finer(t_unit(c.arg("self")), t_unit(c.arg("other"))),
    },
    props=P16,
)

Contract(
    "utils.EventTime.__sub__",
    params={"self": ETy, "other": ETy},
    ret=ETy,
    ensures=lambda c: {
        "sub.post": us(c.res) == us(c.arg("self")) - us(c.arg("other")),
        "sub.unit": t_unit(c.res) == finer(t_unit(c.arg("self")), t_unit(c.arg("other"))),
    },
    props=P16,
)

Contract(
    "utils.EventTime.__eq__",
    params={"self": ETy, "other": ETy},
    ret=T.BOOL,
    ensures=lambda c: {"eq.iff": c.res == (us(c.arg("self")) == us(c.arg("other")))},
    props=P16,
)

Contract(
    "utils.EventTime.__lt__",
    params={"self": ETy, "other": ETy},
    ret=T.BOOL,
    ensures=lambda c: {"lt.iff": c.res == (us(c.arg("self")) < us(c.arg("other")))},
    props=P16,
)

Contract(
    "utils.EventTime.__mul__",
    params={"self": ETy, "other": T.INT},
    ret=ETy,
    ensures=lambda c: {"mul.post": z3.And(us(c.res) == us(c.arg("self")) * c.arg("other"), t_unit(c.res) == t_unit(c.arg("self")))},
    props=P16,
)

Contract(
    "utils.EventTime.__hash__",
    params={"self": ETy},
    ret=T.INT,
    ensures=lambda c: {"hash.agrees": c.res == us(c.arg("self"))},
    props=P16,
)

Contract(
    "utils.EventTime.__copy__",
    params={"self": ETy},
    ret=ETy,
    ensures=lambda c: {"copy.post": c.res == c.arg("self")},
    props=P16,
)

Contract(
    "utils.EventTime.is_invalid",
    params={"self": ETy},
    ret=T.BOOL,
    ensures=lambda c: {"is_invalid.post": c.res == (t_time(c.arg("self")) == -1)},
    props=P16,
)

Contract(
    "utils.EventTime.zero",
    params={},
    ret=ETy,
    ensures=lambda c: {"zero.post": z3.And(t_time(c.res) == 0, t_unit(c.res) == 0)},
    props=P16,
)

Contract(
    "utils.EventTime.invalid",
    params={},
    ret=ETy,
    ensures=lambda c: {"invalid.post": z3.And(t_time(c.res) == -1, t_unit(c.res) == 0)},
    props=P16,
)


# ---- native replays of pyvc counter-models for the EventTime algebra ------------------------------------------
from pyvc.registry import REPLAYS  # noqa: E402

_ET_CASES = {
    "utils.EventTime.__add__": ("a + b", "us(r) == us(a) + us(b)"),
    "utils.EventTime.__sub__": ("a - b", "us(r) == us(a) - us(b)"),
    "utils.EventTime.__eq__": ("a == b", "r == (us(a) == us(b))"),
    "utils.EventTime.__lt__": ("a < b", "r == (us(a) < us(b))"),
    "utils.EventTime.__mul__": ("a * k", "us(r) == us(a) * k"),
    "utils.EventTime.__hash__": ("hash(a)", "r == us(a)"),
    "utils.EventTime.to": ("a.to(u)", "(us(r) == us(a) and r.unit == u) if F[u] <= F[a.unit] else False"),
}


def _et_replay(fn):
    call, post = _ET_CASES[fn]

    def build(model, viol):
        def et(d):
            return "EventTime(%d, EventTime.Unit.%s)" % (d["_time"], d["_unit"])

        lines = [
            "import sys",
            "from utils import EventTime",
            "U = EventTime.Unit",
            "F = {U.US: 1, U.MS: 1000, U.S: 1000000}",
            "us = lambda t: t.time * F[t.unit]",
            "a = " + et(model["self"]),
        ]
        if "other" in model and isinstance(model["other"], dict):
            lines.append("b = " + et(model["other"]))
        if "other" in model and isinstance(model["other"], int):
            lines.append("k = %d" % model["other"])
        if "unit" in model:
            lines.append("u = U.%s" % model["unit"])
        lines += [
            "try:",
            "    r = " + call,
            "    ok = bool(" + post + ")",
            "    print('inputs:', a, locals().get('b', locals().get('u', locals().get('k'))), '->', r, '| contract', %r, 'holds:', ok)" % post,
            "except ValueError as e:",
            "    refused_ok = %s" % ("F[u] > F[a.unit]" if fn.endswith(".to") else "False"),
            "    print('raised ValueError:', e, '| refusal expected:', refused_ok)",
            "    ok = refused_ok",
            "sys.exit(0 if ok else 1)",
        ]
        return "\n".join(lines) + "\n"

    return build


for _fn in _ET_CASES:
    REPLAYS[(_fn, "post.")] = _et_replay(_fn)
    REPLAYS[(_fn, "noraise.")] = _et_replay(_fn)


# ---- engine cross-check (DESIGN 3.8): pyvc must predict CPython's outcome on concrete inputs -------------------------
from pyvc.registry import scan as _scan  # noqa: E402


@_scan("C16")
def engine_agrees_with_cpython_on_concrete_inputs():
    import os
    import subprocess
    import sys

    here = os.path.dirname(os.path.dirname(os.path.abspath(__file__)))
    p = subprocess.run([sys.executable, os.path.join(here, "vlib", "difftest.py"), "150"], capture_output=True, text=True, timeout=600)
    last = (p.stdout.strip().splitlines() or ["no output"])[-1]
    if p.returncode == 2:
        raise RuntimeError("difftest could not run: " + (p.stdout + p.stderr)[-300:])
    return [("pyvc.difftest.EventTime", p.returncode == 0, last if p.returncode == 0 else (p.stdout[-1500:]))]
