"""Registered last: the refinement checks X#refines between every abstract contract used by the callers and the
X#body contract that is verified against the source (pyvc.registry.add_refinements): under the preconditions of both,
every result / post-state / frame / exception X#body allows must be allowed by X."""
import z3

from pyvc import heap as H
from pyvc.engine import Fact
from pyvc.registry import add_refinements
from contracts.c_tasks import TASK
from contracts.c_taskgraph import TaskList, graph_complete_spec
from contracts.c_handlers import closure, TGC, SLOWEST, TGD

# pairs that cannot be compared this way, with the reason (reported in the evidence as assumptions that stay)
NOT_COMPARABLE = {
    "workers.workers.WorkerPool.can_accomodate_strategy": "the abstract contract used by the greedy policies speaks about a ghost occupancy version of the pool ($ver) that no real field carries: 'the answer is a function of (version, strategy), and only place_task / remove_task / step move the version'; the body contract speaks about the workers' ledgers",
    "workers.workers.WorkerPool.place_task": "abstract contract over the ghost occupancy version ($ver, $last_task, $last_strategy), see can_accomodate_strategy; its frame names the ghost fields only, not the ledgers place_task#body writes (the policies plan on copies of the pools, and the ledger effect is the subject of C04 / C01, decided on place_task#body itself)",
    "workload.workload.Workload.get_schedulable_tasks": "the abstract contract used by the greedy policies adds the assumed Task representation invariant of the offered tasks (section 0.5) and does not list the exceptions of the graph traversal (ValueError / RuntimeError / AttributeError): 'returns normally' (C10) is decided by the bounded stand-ins",
}


def _x():
    return z3.Int(H.fresh_name("rf_x"))


# Definitions of the uninterpreted functions the abstract contracts use to NAME the callee's result in the callers'
# postconditions. Each is assumed in the refinement check only (listed as a Fact): "the named set / value is what the
# verified body returns"; what stays assumed is that the result depends only on the arguments of the uninterpreted function.
def _def_cancel(c):
    x = _x()
    return [Fact("def.cancel_closure", z3.ForAll([x], closure(c.pre, c.arg("self"), c.arg("task"), x) == c.post.l_mem(TaskList, c.res, x), patterns=[closure(c.pre, c.arg("self"), c.arg("task"), x), c.post.l_mem(TaskList, c.res, x)]))]


DEFS = {
    "workload.tasks.TaskGraph.cancel": _def_cancel,
    "workload.tasks.TaskGraph.is_complete": lambda c: [Fact("def.taskgraph_is_complete", TGC(c.pre.fld_arr(TASK, "_state")[2], c.arg("self")) == graph_complete_spec(c.pre, c.arg("self")))],
    "workload.tasks.TaskGraph.deadline": lambda c: [Fact("def.taskgraph_deadline", TGD(c.arg("self")) == (c.res.z if hasattr(c.res, "z") else c.res))],
    "workload.strategy.ExecutionStrategies.get_slowest_strategy": lambda c: [Fact("def.slowest_strategy", SLOWEST(c.arg("self")) == c.res.z if hasattr(c.res, "z") else SLOWEST(c.arg("self")) == c.res)],
}

REFINEMENTS = add_refinements(NOT_COMPARABLE, DEFS)
