"""Simulator.__handle_scheduler_finish: applying one scheduler invocation's decisions (C02 / C03 / C05 / C16).
Proved: a placed decision timed before the end of the invocation is rejected (ValueError) - so no task is planned into
the past -, the event queue is a valid heap again on return, the decisions are consumed (`_last_scheduler_placements`
reset), and the next scheduler / end event and a LOG_UTILIZATION event are queued."""
import z3
from contracts.c_taskgraph import Adj

from pyvc import ty as T
from pyvc import heap as H
from pyvc.engine import Fact, Step
from pyvc.registry import ANY, CLASSES, Contract, Loop
from contracts import shapes as S_
from contracts.c_utils import ETy, OptET, us
from contracts.c_events import EL, EVENT, q_list, is_heap, mem, ev_time, ev_type, ev_task, et, lst_mod
from contracts.c_simulator import SIM, Simulator, sim_queue, closed_queue
from contracts.c_tasks import TASK, wf_task, some, get
from contracts.c_sched import PLACEMENT, PLACEMENTS, PlacementsCls, BASE
from contracts.c_handlers import fut, FutureMap, PL

PlacementsCls.iter_field = "_placements"
PlacementsCls.iter_kind = "values"
Simulator.fields["_last_scheduler_placements"] = T.Ref(PLACEMENTS)
Simulator.fields["_last_scheduler_placements"].nullable = True
PMap = T.Dict(T.STR, T.Ref(PLACEMENT))
PT_ = S_.PlacementType.ty
PLACE_TASK = PT_.ordinal("PLACE_TASK")
STRAT = "workload.strategy.ExecutionStrategy"

Contract(PLACEMENTS + ".true_runtime", inline=True, props=("C03",))


def lsp(h, s):
    return h.rd(s, SIM, "_last_scheduler_placements")[1]


def pmap(h, s):
    return h.rd(lsp(h, s), PLACEMENTS, "_placements")[1]


def placement_at(h, s, k):
    d = pmap(h, s)
    return h.d_val(PMap, d, h.d_key(PMap, d, k))


def is_placed(h, p):
    return z3.Not(T.opt_is_none(S_.OptSTR, h.rd(p, PLACEMENT, "_worker_pool_id")[1]))


def _sf_requires(c):
    s, ev = c.arg("self"), c.arg("event")
    k = z3.Int(H.fresh_name("sf_k"))
    p = placement_at(c.pre, s, k)
    comp = c.pre.rd(p, PLACEMENT, "_computation")[1]
    strat = c.pre.rd(p, PLACEMENT, "_strategy")[1]
    task_dec = z3.Or(c.pre.rd(p, PLACEMENT, "_placement_type")[1] == PLACE_TASK, c.pre.rd(p, PLACEMENT, "_placement_type")[1] == PT_.ordinal("CANCEL_TASK"))
    return {
        "heap_ok": is_heap(c.pre, sim_queue(c.pre, s)),
        "event_given": ev != 0,
        "decisions_present": lsp(c.pre, s) != 0,
        "event_is_not_a_cached_placement": z3.ForAll([z3.Const("sf_x", T.sort(T.STR))], z3.Implies(c.pre.d_dom(FutureMap, fut(c.pre, s), z3.Const("sf_x", T.sort(T.STR))), c.pre.d_val(FutureMap, fut(c.pre, s), z3.Const("sf_x", T.sort(T.STR))) != ev), patterns=[c.pre.d_dom(FutureMap, fut(c.pre, s), z3.Const("sf_x", T.sort(T.STR)))]),
        "no_schedule_verification": z3.Not(c.pre.rd(s, SIM, "_verify_schedule")[1]),
        "scheduler_present": c.pre.rd(s, SIM, "_scheduler")[1] != 0,
        "delay_nonneg": us(c.pre.rd(s, SIM, "_scheduler_delay")[1]) >= 0,
        # what a policy hands back (C10, decided there): placements are objects; a task decision names a well-formed task;
        # a placed decision carries its strategy and its time
        "decisions_well_formed": z3.ForAll(
            [k],
            z3.Implies(
                z3.And(0 <= k, k < c.pre.c_len(PMap, pmap(c.pre, s))),
                z3.And(
                    p != 0,
                    z3.Implies(task_dec, z3.And(comp > 0, c.pre.cls_tag(comp) == CLASSES[TASK].code, wf_task(c.pre, comp))),
                    z3.Implies(z3.And(c.pre.rd(p, PLACEMENT, "_placement_type")[1] == PLACE_TASK, is_placed(c.pre, p)), z3.And(strat != 0, us(c.pre.rd(strat, STRAT, "_runtime")[1]) >= 0)),
                    some(c.pre.rd(p, PLACEMENT, "_placement_time")[1]),
                ),
            ),
            patterns=[p],
        ),
    }


def _sf_mod(c):
    s = c.arg("self")
    out = lst_mod(c, sim_queue(c.pre, s))
    for f in ("_state", "_cancellation_time", "_probability", "_remaining_time", "_scheduling_time", "_scheduler_placement", "_worker_pool_id"):
        out[c.pre.fld_arr(TASK, f)[0]] = ANY
    for p_ in ("len", "keys", "idx", "dom", "val"):
        out[c.pre.carr(FutureMap, p_)[0]] = [fut(c.pre, s)]
    out[c.pre.fld_arr(EVENT, "_time")[0]] = ANY
    out[c.pre.fld_arr(EVENT, "_placement")[0]] = ANY
    out[c.pre.fld_arr(SIM, "_last_scheduler_placements")[0]] = [s]
    out[c.pre.fld_arr(SIM, "_next_scheduler_event")[0]] = [s]
    # cancellation cascades (skip helper with drop_skipped_tasks, CANCEL_TASK decisions) may add empty entries to the parent
    # map of the graph of any decided task
    for p_ in ("len", "keys", "idx", "dom", "val"):
        out[c.pre.carr(Adj, p_)[0]] = ANY
    return out


def _past_decision(c, h, k):
    s, ev = c.arg("self"), c.arg("event")
    p = placement_at(c.pre, s, k)
    return z3.And(c.pre.rd(p, PLACEMENT, "_placement_type")[1] == PLACE_TASK, is_placed(c.pre, p), us(get(c.pre.rd(p, PLACEMENT, "_placement_time")[1])) < us(ev_time(c.pre, ev)))


def _sf_loop0_inv(c, L):
    s, ev = c.arg("self"), c.arg("event")
    h = c.post
    evs = L.var("simulator_events")
    k = z3.Int(H.fresh_name("si_k"))
    return {
        "list_fresh": z3.And(evs >= c.alloc0, evs < c.run.cur_alloc(), evs != sim_queue(c.pre, s)),
        "queue_heap_ok": is_heap(h, sim_queue(c.pre, s)),
        "this_event_keeps_its_time": z3.And(
            ev_time(h, ev) == ev_time(c.pre, ev),
            z3.ForAll([z3.Const("sf_x", T.sort(T.STR))], z3.Implies(h.d_dom(FutureMap, fut(c.pre, s), z3.Const("sf_x", T.sort(T.STR))), h.d_val(FutureMap, fut(c.pre, s), z3.Const("sf_x", T.sort(T.STR))) != ev), patterns=[h.d_dom(FutureMap, fut(c.pre, s), z3.Const("sf_x", T.sort(T.STR)))]),
        ),
        "queue_members_are_old": z3.ForAll([k], z3.Implies(mem(h, sim_queue(c.pre, s), k), mem(c.pre, sim_queue(c.pre, s), k)), patterns=[mem(h, sim_queue(c.pre, s), k)]),
        # C02 / C03: no decision applied so far plans a task before the end of this invocation
        "no_past_decision_applied": z3.ForAll([k], z3.Implies(z3.And(0 <= k, k < L.i, k < c.pre.c_len(PMap, pmap(c.pre, s))), z3.Not(_past_decision(c, h, k))), patterns=[placement_at(c.pre, s, k)]),
        "decisions_untouched": z3.And(
            lsp(h, s) == lsp(c.pre, s),
            *[h.carr(PMap, p_)[1] == c.pre.carr(PMap, p_)[1] for p_ in ("len", "keys", "idx", "dom", "val")],
            *[h.fld_arr(PLACEMENT, f)[2] == c.pre.fld_arr(PLACEMENT, f)[2] for f in ("_placement_type", "_computation", "_placement_time", "_worker_pool_id", "_worker_id", "_strategy")],
            h.fld_arr(PLACEMENTS, "_placements")[2] == c.pre.fld_arr(PLACEMENTS, "_placements")[2],
        ),
        "collected_events_not_none": z3.ForAll([k], z3.Implies(z3.And(0 <= k, k < h.c_len(EL, evs)), h.l_elem(EL, evs, k) != 0), patterns=[h.l_elem(EL, evs, k)]),
        "tasks_of_decisions_stay_wf": z3.ForAll(
            [k],
            z3.Implies(
                z3.And(0 <= k, k < c.pre.c_len(PMap, pmap(c.pre, s)), z3.Or(c.pre.rd(placement_at(c.pre, s, k), PLACEMENT, "_placement_type")[1] == PLACE_TASK, c.pre.rd(placement_at(c.pre, s, k), PLACEMENT, "_placement_type")[1] == PT_.ordinal("CANCEL_TASK"))),
                wf_task(h, c.pre.rd(placement_at(c.pre, s, k), PLACEMENT, "_computation")[1]),
            ),
            patterns=[placement_at(c.pre, s, k)],
        ),
    }


def _sf_loop0_lemmas(c, L, phase):
    s = c.arg("self")
    if phase == "start":
        return [Fact("list.index_mem", c.post.l_index_mem(EL, sim_queue(c.pre, s)))]
    if phase != "end":
        return []
    return [
        Step("this_decision_is_the_ith", z3.And(0 <= L.i, L.i < c.pre.c_len(PMap, pmap(c.pre, s)), L.var("placement") == placement_at(c.pre, s, L.i))),
        Step("this_decision_is_not_in_the_past", z3.Not(_past_decision(c, c.post, L.i))),
    ]


def closed_decisions(c):
    s = c.arg("self")
    k = z3.Int(H.fresh_name("cd_k"))
    p = placement_at(c.pre, s, k)
    return Fact("heap.closed", z3.And(lsp(c.pre, s) < c.alloc0, pmap(c.pre, s) < c.alloc0, z3.ForAll([k], z3.Implies(z3.And(0 <= k, k < c.pre.c_len(PMap, pmap(c.pre, s))), z3.And(p < c.alloc0, c.pre.rd(p, PLACEMENT, "_computation")[1] < c.alloc0, c.pre.rd(p, PLACEMENT, "_strategy")[1] < c.alloc0)), patterns=[p])))


def _sf_loop0_mod(c):
    out = dict(_sf_mod(c))
    fr = c.run.frames[-1].env
    evs = fr.get("simulator_events")
    out.pop(c.pre.fld_arr(SIM, "_last_scheduler_placements")[0], None)
    out.pop(c.pre.fld_arr(SIM, "_next_scheduler_event")[0], None)
    out[c.pre.carr(EL, "len")[0]] = [sim_queue(c.pre, c.arg("self")), evs.z]
    out[c.pre.carr(EL, "elem")[0]] = [sim_queue(c.pre, c.arg("self")), evs.z]
    return out


def _sf_loop1_inv(c, L):
    s = c.arg("self")
    return {"queue_heap_ok": is_heap(c.post, sim_queue(c.pre, s)), "decisions_still_there": lsp(c.post, s) == lsp(c.pre, s)}


def _sf_ens(c):
    s, ev = c.arg("self"), c.arg("event")
    k = z3.Int(H.fresh_name("se_k"))
    return {
        # C02 / C03 / C05: on normal return no placed decision was timed before the end of the invocation (such a decision raises)
        "sched_finish.rejects_decisions_in_the_past": z3.ForAll([k], z3.Implies(z3.And(0 <= k, k < c.pre.c_len(PMap, pmap(c.pre, s))), z3.Not(_past_decision(c, c.post, k))), patterns=[placement_at(c.pre, s, k)]),
        # C16: whatever was re-timed / queued, the queue is a valid heap again
        "sched_finish.queue_heap_ok": is_heap(c.post, sim_queue(c.pre, s)),
        "sched_finish.decisions_consumed": lsp(c.post, s) == 0,
    }


Contract(
    "simulator.Simulator.__handle_scheduler_finish",
    params={"self": Simulator.ty, "event": S_.Event.ty},
    requires=_sf_requires,
    may_raise=("ValueError", "NotImplementedError", "RuntimeError", "AttributeError", "KeyError", "AssertionError"),
    raise_unchanged=False,
    modifies=_sf_mod,
    loops={0: Loop(inv=_sf_loop0_inv, modifies=_sf_loop0_mod, lemmas=_sf_loop0_lemmas), 1: Loop(inv=_sf_loop1_inv, modifies=lambda c: lst_mod(c, sim_queue(c.pre, c.arg("self"))))},
    locals={"simulator_events": EL},
    opaque={
        "count_placed_tasks(self._last_scheduler_placements)": T.INT,
        "len(list(filter(lambda p: p.placement_type == Placement.PlacementType.PLACE_TASK, self._last_scheduler_placements)))": T.INT,
    },
    drops=("def count_placed_tasks(",),
    ensures=_sf_ens,
    entry_facts=lambda c: [closed_queue(c), closed_decisions(c), Fact("heap.closed", z3.And(c.arg("event") > 0, c.arg("event") < c.alloc0))],
    allocates=True,
    note="opaque: the two counts that only feed the SCHEDULER_FINISHED row (csv logger, dropped); precondition: schedule verification off; the skip helper (verified) and __get_next_scheduler_event (verified in the thorough tier) are used by contract; AssertionError when a CANCEL_TASK decision names a pool (the skip helper's assert), not constrained",
    props=("C03", "C05", "C16", "C02"),
)
