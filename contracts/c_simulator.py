"""Simulator-level contracts: clock advance (__step), the simulate() loop body, event handlers.

Serves C03 (clock / exact runtimes), C05 (progress, safety half), C16 (queue discipline at the
re-timing sites), C02 (placement guard), C08 (counters)."""
import z3

from pyvc import ty as T
from pyvc import heap as H
from pyvc.engine import Fact, Step
from pyvc.registry import ANY, CLASSES, Contract, Loop, declare_ref, lemma, scan, assumption, observation, body_frame
from contracts import shapes as S_
from contracts.c_utils import ETy, OptET, us, t_time, t_unit, mk
from contracts.c_events import EL, q_list, is_heap, mem, ev_time, ev_type, ev_task, et, lst_mod, EVENT, valid_event
from contracts.c_tasks import TASK, RUNNING, COMPLETED, wf_task, some, get

SIM = "simulator.Simulator"
WPS = "workers.workers.WorkerPools"
POOL = "workers.workers.WorkerPool"

PoolMap = T.Dict(T.STR, T.Ref(POOL))
WorkerPools = declare_ref(WPS, {"_worker_pools": PoolMap})
FutureMap = T.Dict(T.STR, T.Ref(EVENT))
StrSet = T.Set(T.STR)
TaskList = T.List(S_.TASKR)

Simulator = declare_ref(
    SIM,
    {
        "_logger": T.OPAQUE,
        "_csv_logger": T.OPAQUE,
        "_log_dir": T.OPAQUE,
        "_scheduler": T.Ref(None),
        "_simulator_time": ETy,
        "_scheduler_frequency": ETy,
        "_loop_timeout": ETy,
        "_task_id_added_to_event_queue": StrSet,
        "_workload_loader": T.Ref(None),
        "_workload": T.Ref(None),
        "_worker_pools": T.Ref(WPS),
        "_last_scheduler_start_time": ETy,
        "_next_scheduler_event": S_.nullable(EVENT),
        "_last_scheduler_placements": T.Ref(None),
        "_future_placement_events": FutureMap,
        "_scheduler_delay": ETy,
        "_runtime_variance": T.INT,
        "_drop_skipped_tasks": T.BOOL,
        "_verify_schedule": T.BOOL,
        "_run_scheduler_at_worker_free": T.BOOL,
        "_workload_update_interval": ETy,
        "_log_task_graphs": T.BOOL,
        "_finished_tasks": T.INT,
        "_cancelled_tasks": T.INT,
        "_missed_task_deadlines": T.INT,
        "_finished_task_graphs": T.INT,
        "_missed_task_graph_deadlines": T.INT,
        "_event_queue": T.Ref("simulator.EventQueue"),
    },
)
for _f in ("_last_scheduler_placements",):
    Simulator.fields[_f].nullable = True

P_SIM = ("C03", "C05")


def sim_time(h, s):
    return h.rd(s, SIM, "_simulator_time")[1]


def sim_queue(h, s):
    return q_list(h, h.rd(s, SIM, "_event_queue")[1])


def queue_not_in_past(h, s):
    """every queued event is at or after the simulator clock"""
    e = z3.Int(H.fresh_name("qp_e"))
    return z3.ForAll([e], z3.Implies(mem(h, sim_queue(h, s), e), us(ev_time(h, e)) >= us(sim_time(h, s))), patterns=[mem(h, sim_queue(h, s), e)])


# ---- WorkerPool.step (assumed here; Worker.step is verified in c_workers) --------------------------------------
def _pool_step_ens(c):
    """the returned tasks are exactly reported as finished by Task.step: each was RUNNING with 0 < remaining <= step
    (under the simulator's invariant last_step_time == now) and now has remaining 0; no task state changes"""
    r = c.res
    i = z3.Int(H.fresh_name("ps_i"))
    t = c.post.l_elem(TaskList, r, i)
    rem0 = c.pre.rd(t, TASK, "_remaining_time")[1]
    rem1 = c.post.rd(t, TASK, "_remaining_time")[1]
    x = z3.Int(H.fresh_name("ps_x"))
    return z3.And(
        r >= c.alloc0,
        z3.ForAll(
            [i],
            z3.Implies(
                z3.And(0 <= i, i < c.post.c_len(TaskList, r)),
                z3.And(t != 0, t < c.alloc0, c.pre.rd(t, TASK, "_state")[1] == RUNNING, some(rem1), us(get(rem1)) == 0, some(rem0), us(get(rem0)) > 0),
            ),
            patterns=[c.post.l_elem(TaskList, r, i)],
        ),
    )


Contract(
    "workers.workers.WorkerPool.step",
    params={"self": S_.WorkerPool.ty, "current_time": ETy, "step_size": ETy},
    ret=TaskList,
    trusted=True,
    allocates=True,
    modifies=body_frame("workers.workers.WorkerPool.step", lambda c: {c.pre.fld_arr(TASK, "_remaining_time")[0]: ANY, c.pre.fld_arr(TASK, "_last_step_time")[0]: ANY}),
    ensures=_pool_step_ens,
    note="WorkerPool.step -> Worker.step -> Task.step for every placed RUNNING task (Task.step itself is proved); profile loading progress is not modelled here",
    props=P_SIM,
)


def closed_queue(c):
    """heap closedness: queued events (and their tasks) were allocated before entry"""
    s = c.arg("self")
    lst = sim_queue(c.pre, s)
    i = z3.Int(H.fresh_name("cq_i"))
    e = c.pre.l_elem(EL, lst, i)
    x = z3.Int(H.fresh_name("cq_x"))
    return Fact(
        "heap.closed",
        z3.And(
            lst < c.alloc0,
            z3.ForAll([i], z3.Implies(z3.And(0 <= i, i < c.pre.c_len(EL, lst)), z3.And(e > 0, e < c.alloc0, ev_task(c.pre, e) < c.alloc0)), patterns=[c.pre.l_elem(EL, lst, i)]),
            z3.ForAll([x], z3.Implies(mem(c.pre, lst, x), z3.And(x > 0, x < c.alloc0, ev_task(c.pre, x) < c.alloc0)), patterns=[mem(c.pre, lst, x)]),
        ),
    )


def _step_mod(c):
    s = c.arg("self")
    out = lst_mod(c, sim_queue(c.pre, s))
    out[c.pre.fld_arr(SIM, "_simulator_time")[0]] = [s]
    out[c.pre.fld_arr(TASK, "_remaining_time")[0]] = ANY
    out[c.pre.fld_arr(TASK, "_last_step_time")[0]] = ANY
    return out


def _step_ens(c):
    s = c.arg("self")
    lst = sim_queue(c.pre, s)
    d = c.arg("step_size")
    e = z3.Int(H.fresh_name("se_e"))
    now1 = sim_time(c.post, s)
    new_event = lambda x: z3.And(z3.Not(mem(c.pre, lst, x)), mem(c.post, lst, x))
    return {
        "clock.advances_by_step": us(now1) == us(sim_time(c.pre, s)) + us(d),
        "clock.monotone": us(now1) >= us(sim_time(c.pre, s)),
        "queue.heap_ok": is_heap(c.post, lst),
        "queue.keeps_old_events": z3.ForAll([e], z3.Implies(mem(c.pre, lst, e), mem(c.post, lst, e)), patterns=[mem(c.pre, lst, e)]),
        # every event added by the step is a TASK_FINISHED event stamped with the new clock value
        "finish_events.at_new_clock": z3.ForAll(
            [e],
            z3.Implies(new_event(e), z3.And(ev_type(c.post, e) == et("TASK_FINISHED"), us(ev_time(c.post, e)) == us(now1), ev_task(c.post, e) != 0)),
            patterns=[mem(c.post, lst, e)],
        ),
        "queue.not_in_past": z3.Implies(z3.And(queue_not_in_past(c.pre, s), _no_event_before(c.pre, s, us(sim_time(c.pre, s)) + us(d))), queue_not_in_past(c.post, s)),
    }


def _no_event_before(h, s, t):
    e = z3.Int(H.fresh_name("nb_e"))
    return z3.ForAll([e], z3.Implies(mem(h, sim_queue(h, s), e), us(ev_time(h, e)) >= t), patterns=[mem(h, sim_queue(h, s), e)])


def _step_loop0_mod(c, inner=False):
    # the stepping loop: tasks advance, TASK_FINISHED events are created (fresh) and collected in a fresh list
    out = {}
    if not inner:
        out = {c.pre.fld_arr(TASK, "_remaining_time")[0]: ANY, c.pre.fld_arr(TASK, "_last_step_time")[0]: ANY}
        out[c.pre.carr(TaskList, "len")[0]] = []
        out[c.pre.carr(TaskList, "elem")[0]] = []
    for f in ("_event_type", "_time", "_task", "_task_graph", "_placement"):
        out[c.pre.fld_arr(EVENT, f)[0]] = []
    fin = c.run.frames[-1].env.get("task_finished_events")
    out[c.pre.carr(EL, "len")[0]] = [fin.z]
    out[c.pre.carr(EL, "elem")[0]] = [fin.z]
    return out


def _fin_list_inv(c, L):
    """task_finished_events holds only fresh TASK_FINISHED events stamped now + step"""
    s = c.arg("self")
    if not L.has("task_finished_events"):
        return {}
    lst = L.var("task_finished_events")
    h = c.post
    j = z3.Int(H.fresh_name("fl_j"))
    e = h.l_elem(EL, lst, j)
    target = us(sim_time(c.pre, s)) + us(c.arg("step_size"))
    return {
        "collected_events": z3.And(
            lst >= c.alloc0,
            z3.ForAll(
                [j],
                z3.Implies(
                    z3.And(0 <= j, j < h.c_len(EL, lst)),
                    z3.And(e >= c.alloc0, e < c.run.cur_alloc(), ev_type(h, e) == et("TASK_FINISHED"), us(ev_time(h, e)) == target, ev_task(h, e) != 0),
                ),
                patterns=[h.l_elem(EL, lst, j)],
            ),
        ),
        "clock_untouched": sim_time(h, s) == sim_time(c.pre, s),
    }


def _step_loop2_inv(c, L):
    """adding the collected events one by one: heap stays valid, old members stay, new members are collected events"""
    s = c.arg("self")
    lst = sim_queue(c.pre, s)
    h = c.post
    fin = L.var("task_finished_events")
    e = z3.Int(H.fresh_name("l2_e"))
    j = z3.Int(H.fresh_name("l2_j"))
    target = us(sim_time(c.pre, s)) + us(c.arg("step_size"))
    return {
        "heap_ok": is_heap(h, lst),
        "old_kept": z3.ForAll([e], z3.Implies(mem(c.pre, lst, e), mem(h, lst, e)), patterns=[mem(c.pre, lst, e)]),
        "new_are_finish_events": z3.ForAll(
            [e],
            z3.Implies(z3.And(mem(h, lst, e), z3.Not(mem(c.pre, lst, e))), z3.And(ev_type(h, e) == et("TASK_FINISHED"), us(ev_time(h, e)) == target, ev_task(h, e) != 0)),
            patterns=[mem(h, lst, e)],
        ),
        "clock_set": us(sim_time(h, s)) == target,
        "collected_events": z3.ForAll(
            [j],
            z3.Implies(
                z3.And(0 <= j, j < h.c_len(EL, fin)),
                z3.And(ev_type(h, h.l_elem(EL, fin, j)) == et("TASK_FINISHED"), us(ev_time(h, h.l_elem(EL, fin, j))) == target, ev_task(h, h.l_elem(EL, fin, j)) != 0),
            ),
            patterns=[h.l_elem(EL, fin, j)],
        ),
        "fin_list_fresh": fin >= c.alloc0,
    }


def _step_loop2_mod(c):
    s = c.arg("self")
    return lst_mod(c, sim_queue(c.pre, s))


Contract(
    "simulator.Simulator.__step",
    params={"self": Simulator.ty, "step_size": ETy},
    requires=lambda c: {"heap_ok": is_heap(c.pre, sim_queue(c.pre, c.arg("self"))), "queue_is_own_list": sim_queue(c.pre, c.arg("self")) > 0},
    raises={"ValueError": lambda c: us(c.arg("step_size")) < 0},  # O: clock.never_backwards
    modifies=_step_mod,
    loops={
        0: Loop(inv=_fin_list_inv, modifies=_step_loop0_mod),
        1: Loop(inv=_fin_list_inv, modifies=lambda c: _step_loop0_mod(c, inner=True)),
        2: Loop(inv=_step_loop2_inv, modifies=_step_loop2_mod),
    },
    locals={"task_finished_events": EL},
    entry_facts=lambda c: [closed_queue(c)],
    ensures=_step_ens,
    allocates=True,
    props=P_SIM + ("C16",),
)
