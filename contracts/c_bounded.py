"""Registration of the bounded stand-ins (E2b / E3). They are labelled bounded in the evidence and are
never counted as proved."""
from pyvc.registry import bounded, observation

# E3: captured solver-model implication (ILP, TetriSched-Gurobi, TetriSched-CPLEX, Z3)
for pid in ("C10", "C11", "C12", "C14"):
    bounded(pid, "milp_capture", "bounded/milp_capture.py")
bounded("C19", "loaders", "bounded/loaders.py")
bounded("C17", "graphs", "bounded/graphs.py")
for pid in ("C01", "C02", "C03", "C05", "C06", "C08", "C09", "C12"):
    bounded(pid, "worlds", "bounded/worlds.py")
for pid in ("C04", "C01"):
    bounded(pid, "ledger", "bounded/ledger.py")
for pid in ("C06", "C07", "C18"):
    bounded(pid, "taskgraph", "bounded/taskgraph.py")
for pid in ("C10", "C12", "C13", "C15"):
    bounded(pid, "sched_small", "bounded/sched_small.py")
bounded("C16", "eventqueue", "bounded/eventqueue.py")
bounded("C03", "eventqueue", "bounded/eventqueue.py")
bounded("C09", "repro_api", "bounded/repro_api.py")
