"""WorkerPool-level functions verified against concrete ('#body') contracts.

The scheduler / handler proofs use abstract contracts of these functions (ghost occupancy version, c_sched / c_handlers).
The contracts here state what the real bodies do in terms of the Worker-level specifications and are verified against
the source; callers keep the abstract contracts."""
import z3

from pyvc import ty as T
from pyvc import heap as H
from pyvc.engine import Fact, Step
from pyvc.registry import ANY, CLASSES, Contract, Loop
from contracts import shapes as S_
from contracts.c_workers import worker_fits

POOL = "workers.workers.WorkerPool"
WorkerMap = S_.WorkerMap


def pool_workers(h, p):
    return h.rd(p, POOL, "_workers")[1]


def worker_at(h, p, k):
    d = pool_workers(h, p)
    return h.d_val(WorkerMap, d, h.d_key(WorkerMap, d, k))


def some_worker_fits(h, p, s):
    k = z3.Int(H.fresh_name("pf_k"))
    return z3.Exists([k], z3.And(0 <= k, k < h.c_len(WorkerMap, pool_workers(h, p)), worker_fits(h, worker_at(h, p, k), s)))


Contract(
    "workers.workers.WorkerPool.can_accomodate_strategy#body",
    params={"self": S_.WorkerPool.ty, "execution_strategy": S_.STRAT},
    ret=T.BOOL,
    # C13 / C10: the pool-level fit test used by EDF / FIFO / LSF is true exactly when SOME worker of the pool fits
    ensures=lambda c: {"pool_fits.iff_some_worker_fits": c.res == some_worker_fits(c.pre, c.arg("self"), c.arg("execution_strategy"))},
    note="concrete contract of the body; callers use the abstract contract (a function of the pool's ghost occupancy version)",
    props=("C13", "C10", "C04"),
)
