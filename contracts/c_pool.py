"""WorkerPool-level functions verified against concrete ('#body') contracts.

The scheduler / handler proofs use abstract contracts of these functions (ghost occupancy version, c_sched / c_handlers).
The contracts here state what the real bodies do in terms of the Worker-level specifications and are verified against
the source; callers keep the abstract contracts."""
import z3

from pyvc import ty as T
from pyvc import heap as H
from pyvc.engine import Fact, Step
from pyvc.registry import ANY, CLASSES, Contract, Loop
from contracts import shapes as S_
from contracts.c_workers import worker_fits

POOL = "workers.workers.WorkerPool"
WorkerMap = S_.WorkerMap


def pool_map(h, p):
    return h.rd(p, POOL, "_placed_tasks")[1]


def pool_workers(h, p):
    return h.rd(p, POOL, "_workers")[1]


def worker_at(h, p, k):
    d = pool_workers(h, p)
    return h.d_val(WorkerMap, d, h.d_key(WorkerMap, d, k))


def some_worker_fits(h, p, s):
    k = z3.Int(H.fresh_name("pf_k"))
    return z3.Exists([k], z3.And(0 <= k, k < h.c_len(WorkerMap, pool_workers(h, p)), worker_fits(h, worker_at(h, p, k), s)))


Contract(
    "workers.workers.WorkerPool.can_accomodate_strategy#body",
    params={"self": S_.WorkerPool.ty, "execution_strategy": S_.STRAT},
    ret=T.BOOL,
    # C13 / C10: the pool-level fit test used by EDF / FIFO / LSF is true exactly when SOME worker of the pool fits
    ensures=lambda c: {"pool_fits.iff_some_worker_fits": c.res == some_worker_fits(c.pre, c.arg("self"), c.arg("execution_strategy"))},
    note="concrete contract of the body; callers use the abstract contract (a function of the pool's ghost occupancy version)",
    props=("C13", "C10", "C04"),
)


# =================================================================================================
# WorkerPool.step : the body against the abstract contract the simulator proofs use (C03 / C05)
# =================================================================================================
from contracts.c_workers import wf_worker, wf_worker_parts, _placed_tasks_wf, wap, wpp, wpt, wpb, wbt, wres, step_finishes, step_rel, TaskList, PT, PB, BT, PF, TS, closed_wmaps, is_batch  # noqa: E402
from contracts.c_resources import rv, tot, am, RV, AM, V, held  # noqa: E402
from contracts.c_tasks import TASK, wf_task, some, get, RUNNING  # noqa: E402
from contracts.c_utils import ETy, us  # noqa: E402

WORKER = "workers.workers.Worker"


def n_workers(h, p):
    return h.c_len(WorkerMap, pool_workers(h, p))


def wf_pool_parts(h, p):
    """Pool invariant: every worker satisfies the ledger invariant WF_W (and the Task invariant for its residents); the
    workers are distinct objects with separate profile maps; a task is resident on at most one worker (C01)."""
    k, k2, t = z3.Int(H.fresh_name("wp_k")), z3.Int(H.fresh_name("wp_k2")), z3.Int(H.fresh_name("wp_t"))
    b, b2 = z3.Int(H.fresh_name("wp_b")), z3.Int(H.fresh_name("wp_b2"))
    n = n_workers(h, p)
    wk, wk2 = worker_at(h, p, k), worker_at(h, p, k2)
    per_worker = {"not_none": wk != 0, "residents_wf": _placed_tasks_wf(h, wk), "profile_maps_distinct": wap(h, wk) != wpp(h, wk)}
    for nm, g in wf_worker_parts(h, wk).items():
        per_worker["WF." + nm] = g
    out = {"workers_wf." + nm: z3.ForAll([k], z3.Implies(z3.And(0 <= k, k < n), g), patterns=[wk]) for nm, g in per_worker.items()}
    out.update(_pool_sep_parts(h, p, k, k2, t, b, b2, n, wk, wk2))
    return out


def _pool_sep_parts(h, p, k, k2, t, b, b2, n, wk, wk2):
    return {
        # no two workers share a container: each worker owns its resource vectors, allocation map, resident / batch /
        # profile maps and the member sets of its batches (what Worker.__init__ creates)
        "workers_separate": z3.ForAll(
            [k, k2],
            z3.Implies(
                z3.And(0 <= k, k < n, 0 <= k2, k2 < n, k != k2),
                z3.And(
                    wk != wk2,
                    wap(h, wk) != wap(h, wk2),
                    wap(h, wk) != wpp(h, wk2),
                    wpp(h, wk) != wpp(h, wk2),
                    wpt(h, wk) != wpt(h, wk2),
                    wpb(h, wk) != wpb(h, wk2),
                    wbt(h, wk) != wbt(h, wk2),
                    wres(h, wk) != wres(h, wk2),
                    rv(h, wres(h, wk)) != rv(h, wres(h, wk2)),
                    rv(h, wres(h, wk)) != tot(h, wres(h, wk2)),
                    am(h, wres(h, wk)) != am(h, wres(h, wk2)),
                ),
            ),
            patterns=[z3.MultiPattern(wk, wk2)],
        ),
        "batch_sets_separate": z3.ForAll(
            [k, k2, b, b2],
            z3.Implies(
                z3.And(0 <= k, k < n, 0 <= k2, k2 < n, k != k2, h.d_dom(PB, wpb(h, wk), b), h.d_dom(PB, wpb(h, wk2), b2)),
                h.d_val(PB, wpb(h, wk), b) != h.d_val(PB, wpb(h, wk2), b2),
            ),
            patterns=[z3.MultiPattern(h.d_val(PB, wpb(h, wk), b), h.d_val(PB, wpb(h, wk2), b2))],
        ),
        "resident_on_one_worker": z3.ForAll(
            [k, k2, t],
            z3.Implies(z3.And(0 <= k, k < k2, k2 < n), z3.Not(z3.And(h.d_dom(PT, wpt(h, wk), t), h.d_dom(PT, wpt(h, wk2), t)))),
            patterns=[z3.MultiPattern(h.d_dom(PT, wpt(h, wk), t), h.d_dom(PT, wpt(h, wk2), t))],
        ),
    }


def _pstep_requires(c):
    out = dict(wf_pool_parts(c.pre, c.arg("self")))
    out["step_nonneg"] = us(c.arg("step_size")) >= 0
    return out


def _pstep_mod(c):
    out = {
        c.pre.fld_arr(TASK, "_remaining_time")[0]: ANY,
        c.pre.fld_arr(TASK, "_last_step_time")[0]: ANY,
        c.pre.fld_arr("workload.strategy.ExecutionStrategy", "_runtime")[0]: ANY,
    }
    for part in ("len", "keys", "idx", "dom", "val"):
        out[c.pre.carr(PF, part)[0]] = ANY
    return out


def _collected_ok(c, h, lst, upto):
    """what the abstract contract of WorkerPool.step promises about every returned task"""
    j = z3.Int(H.fresh_name("pc_j"))
    t = h.l_elem(TaskList, lst, j)
    rem0 = c.pre.rd(t, TASK, "_remaining_time")[1]
    rem1 = h.rd(t, TASK, "_remaining_time")[1]
    parts = {
        "old_object": z3.And(t > 0, t < c.alloc0),
        "was_running": c.pre.rd(t, TASK, "_state")[1] == RUNNING,
        "now_zero": z3.And(some(rem1), us(get(rem1)) == 0),
        "was_positive": z3.And(some(rem0), us(get(rem0)) > 0),
    }
    return {nm: z3.ForAll([j], z3.Implies(z3.And(0 <= j, j < upto), g), patterns=[h.l_elem(TaskList, lst, j)]) for nm, g in parts.items()}


def _pstep_inv(c, L):
    p = c.arg("self")
    h = c.post
    n = n_workers(c.pre, p)
    k, t = z3.Int(H.fresh_name("pi_k")), z3.Int(H.fresh_name("pi_t"))
    wk = worker_at(c.pre, p, k)
    res = L.var("completed_tasks")
    rem = lambda hh: hh.rd(t, TASK, "_remaining_time")[1]
    last = lambda hh: hh.rd(t, TASK, "_last_step_time")[1]
    pf_same = lambda d: z3.And(*[z3.Select(h.carr(PF, part)[1], d) == z3.Select(c.pre.carr(PF, part)[1], d) for part in ("len", "keys", "idx", "dom", "val")])
    return {
        "list_fresh": res >= c.alloc0,
        **{"collected." + nm: g for nm, g in _collected_ok(c, h, res, h.c_len(TaskList, res)).items()},
        # the residents of the workers still to be stepped are untouched, and so are those workers' profile maps
        "later_residents_untouched": z3.ForAll(
            [k, t], z3.Implies(z3.And(L.i <= k, k < n, c.pre.d_dom(PT, wpt(c.pre, wk), t)), z3.And(rem(h) == rem(c.pre), last(h) == last(c.pre))), patterns=[z3.MultiPattern(wk, rem(h))]
        ),
        "later_profile_maps_untouched": z3.ForAll([k], z3.Implies(z3.And(L.i <= k, k < n), z3.And(pf_same(wap(c.pre, wk)), pf_same(wpp(c.pre, wk)))), patterns=[wk]),
        "nonresidents_untouched": z3.ForAll(
            [t],
            z3.Implies(
                z3.And(0 < t, t < c.alloc0, z3.ForAll([k], z3.Implies(z3.And(0 <= k, k < n), z3.Not(c.pre.d_dom(PT, wpt(c.pre, wk), t))), patterns=[wk])),
                z3.And(rem(h) == rem(c.pre), last(h) == last(c.pre)),
            ),
            patterns=[rem(h)],
        ),
    }


def _pstep_loop_mod(c):
    fr = c.run.frames[-1].env
    res = fr.get("completed_tasks")
    out = _pstep_mod(c)
    out[c.pre.carr(TaskList, "len")[0]] = [res.z]
    out[c.pre.carr(TaskList, "elem")[0]] = [res.z]
    return out


def _pstep_lemmas(c, L, phase):
    if phase != "end":
        return []
    p = c.arg("self")
    h0, h1 = L.iter_heap, c.post  # the state at the start of this iteration / after its body
    res = L.var("completed_tasks")
    w = L.var("worker")
    now, d = c.arg("current_time"), c.arg("step_size")
    j = z3.Int(H.fresh_name("pl_j"))
    old_t, new_t = h0.l_elem(TaskList, res, j), h1.l_elem(TaskList, res, j)
    on_w = lambda t: c.pre.d_dom(PT, wpt(c.pre, w), t)
    return [
        Step("this_worker_is_ith", z3.And(0 <= L.i, L.i < n_workers(c.pre, p), w == worker_at(c.pre, p, L.i))),
        # a task collected earlier finished on an earlier worker: it is not resident on this one (its remaining time is 0,
        # the residents of this worker were untouched and a collected task had a positive remaining time)
        Step("collected_not_on_this_worker", z3.ForAll([j], z3.Implies(z3.And(0 <= j, j < h0.c_len(TaskList, res)), z3.Not(on_w(old_t))), patterns=[old_t])),
        Step("old_elements_kept", z3.ForAll([j], z3.Implies(z3.And(0 <= j, j < h0.c_len(TaskList, res)), new_t == old_t), patterns=[new_t])),
        Step("new_elements_on_this_worker", z3.ForAll([j], z3.Implies(z3.And(h0.c_len(TaskList, res) <= j, j < h1.c_len(TaskList, res)), on_w(new_t)), patterns=[new_t])),
        Step("old_elements_still_zero", z3.ForAll([j], z3.Implies(z3.And(0 <= j, j < h0.c_len(TaskList, res)), z3.And(some(h1.rd(new_t, TASK, "_remaining_time")[1]), us(get(h1.rd(new_t, TASK, "_remaining_time")[1])) == 0)), patterns=[new_t])),
        Step("new_elements_finished_here", z3.ForAll([j], z3.Implies(z3.And(h0.c_len(TaskList, res) <= j, j < h1.c_len(TaskList, res)), step_finishes(h0, new_t, now, d)), patterns=[new_t])),
        Step("new_elements_now_zero", z3.ForAll([j], z3.Implies(z3.And(h0.c_len(TaskList, res) <= j, j < h1.c_len(TaskList, res)), z3.And(some(h1.rd(new_t, TASK, "_remaining_time")[1]), us(get(h1.rd(new_t, TASK, "_remaining_time")[1])) == 0)), patterns=[new_t])),
    ]


def _pstep_ens(c):
    from contracts.c_simulator import _pool_step_ens

    p = c.arg("self")
    n = n_workers(c.pre, p)
    k, t = z3.Int(H.fresh_name("pe_k")), z3.Int(H.fresh_name("pe_t"))
    wk = worker_at(c.pre, p, k)
    rem = lambda hh: hh.rd(t, TASK, "_remaining_time")[1]
    last = lambda hh: hh.rd(t, TASK, "_last_step_time")[1]
    return {
        # exactly the text of the abstract contract (c_simulator) that Simulator.__step / simulate are verified against
        "pool_step.abstract_contract_holds": _pool_step_ens(c),
        # a task that is resident on no worker of the pool is not touched
        "pool_step.nonresidents_untouched": z3.ForAll(
            [t],
            z3.Implies(
                z3.And(0 < t, t < c.alloc0, z3.ForAll([k], z3.Implies(z3.And(0 <= k, k < n), z3.Not(c.pre.d_dom(PT, wpt(c.pre, wk), t))), patterns=[wk])),
                z3.And(rem(c.post) == rem(c.pre), last(c.post) == last(c.pre)),
            ),
            patterns=[rem(c.post)],
        ),
    }


def closed_pool(c):
    p = c.arg("self")
    k = z3.Int(H.fresh_name("cp_k"))
    wk = worker_at(c.pre, p, k)
    t = z3.Int(H.fresh_name("cp_t"))
    return Fact(
        "heap.closed",
        z3.And(
            pool_workers(c.pre, p) < c.alloc0,
            z3.ForAll(
                [k],
                z3.Implies(
                    z3.And(0 <= k, k < n_workers(c.pre, p)),
                    z3.And(
                        wk < c.alloc0, wpt(c.pre, wk) < c.alloc0, wap(c.pre, wk) < c.alloc0, wpp(c.pre, wk) < c.alloc0, wpb(c.pre, wk) < c.alloc0, wbt(c.pre, wk) < c.alloc0,
                        wres(c.pre, wk) < c.alloc0, rv(c.pre, wres(c.pre, wk)) < c.alloc0, tot(c.pre, wres(c.pre, wk)) < c.alloc0, am(c.pre, wres(c.pre, wk)) < c.alloc0,
                    ),
                ),
                patterns=[wk],
            ),
            z3.ForAll([k, t], z3.Implies(z3.And(0 <= k, k < n_workers(c.pre, p), c.pre.d_dom(PB, wpb(c.pre, wk), t)), c.pre.d_val(PB, wpb(c.pre, wk), t) < c.alloc0), patterns=[c.pre.d_val(PB, wpb(c.pre, wk), t)]),
            z3.ForAll(
                [k, t],
                z3.Implies(z3.And(0 <= k, k < n_workers(c.pre, p), c.pre.d_dom(AM, am(c.pre, wres(c.pre, wk)), t)), c.pre.d_val(AM, am(c.pre, wres(c.pre, wk)), t) < c.alloc0),
                patterns=[c.pre.d_val(AM, am(c.pre, wres(c.pre, wk)), t)],
            ),
            pool_map(c.pre, p) < c.alloc0,
            z3.ForAll([k, t], z3.Implies(z3.And(0 <= k, k < n_workers(c.pre, p), c.pre.d_dom(PT, wpt(c.pre, wk), t)), z3.And(0 < t, t < c.alloc0)), patterns=[c.pre.d_dom(PT, wpt(c.pre, wk), t)]),
        ),
    )


Contract(
    "workers.workers.WorkerPool.step#body",
    params={"self": S_.WorkerPool.ty, "current_time": ETy, "step_size": ETy},
    ret=TaskList,
    requires=_pstep_requires,
    modifies=_pstep_mod,
    loops={0: Loop(inv=_pstep_inv, modifies=_pstep_loop_mod, lemmas=_pstep_lemmas)},
    locals={"completed_tasks": TaskList},
    ensures=_pstep_ens,
    entry_facts=lambda c: [closed_pool(c)],
    allocates=True,
    note="the body of WorkerPool.step verified against the abstract contract that Simulator.__step / simulate use, under the pool invariant (every worker WF_W, residents well formed, a task resident on at most one worker)",
    props=("C03", "C05", "C01"),
)


# =================================================================================================
# WorkerPool.remove_task : the body in terms of Worker.remove_task (C04 / C01)
# =================================================================================================
from contracts.c_workers import _remove_ens as _w_remove_ens, _remove_raises as _w_remove_raises, _remove_mod as _w_remove_mod  # noqa: E402

PoolPlaced = S_.PoolPlaced


def worker_by_id(h, p, wid):
    return h.d_val(WorkerMap, pool_workers(h, p), wid)


def pool_map_parts(h, p):
    """the pool's task -> worker-id map agrees with the workers: a mapped task is resident on the worker it names, and
    every resident of a worker is mapped to that worker's key"""
    t, k = z3.Int(H.fresh_name("pm_t")), z3.Int(H.fresh_name("pm_k"))
    m = pool_map(h, p)
    d = pool_workers(h, p)
    wid = h.d_val(PoolPlaced, m, t)
    wk = worker_at(h, p, k)
    return {
        "map_distinct_object": m != 0,
        "mapped_task_is_resident_there": z3.ForAll(
            [t], z3.Implies(h.d_dom(PoolPlaced, m, t), z3.And(h.d_dom(WorkerMap, d, wid), h.d_dom(PT, wpt(h, worker_by_id(h, p, wid)), t))), patterns=[h.d_dom(PoolPlaced, m, t)]
        ),
        "resident_is_mapped": z3.ForAll(
            [k, t],
            z3.Implies(z3.And(0 <= k, k < n_workers(h, p), h.d_dom(PT, wpt(h, wk), t)), z3.And(h.d_dom(PoolPlaced, m, t), h.d_val(PoolPlaced, m, t) == h.d_key(WorkerMap, d, k))),
            patterns=[h.d_dom(PT, wpt(h, wk), t)],
        ),
    }


def _premove_names(c):
    p, task = c.arg("self"), c.arg("task")
    wid = c.pre.d_val(PoolPlaced, pool_map(c.pre, p), task)
    return p, task, wid, worker_by_id(c.pre, p, wid)


def _premove_requires(c):
    out = dict(wf_pool_parts(c.pre, c.arg("self")))
    out.update(pool_map_parts(c.pre, c.arg("self")))
    return out


def _premove_raises(c):
    p, task, wid, w = _premove_names(c)
    return z3.Or(z3.Not(c.pre.d_dom(PoolPlaced, pool_map(c.pre, p), task)), _w_remove_raises(c, w=w, task=task))


def _premove_mod(c):
    p, task, wid, w = _premove_names(c)
    out = _w_remove_mod(c, w=w, task=task)
    for part in ("len", "keys", "idx", "dom"):
        out[c.pre.carr(PoolPlaced, part)[0]] = [pool_map(c.pre, p)]
    return out


def _premove_ens(c):
    p, task, wid, w = _premove_names(c)
    n = n_workers(c.pre, p)
    k, t = z3.Int(H.fresh_name("pr_k")), z3.Int(H.fresh_name("pr_t"))
    wk = worker_at(c.pre, p, k)
    m = pool_map(c.pre, p)
    out = {}
    # C04: on the worker that held the task, exactly Worker.remove_task's (proved) effect
    for nm, g in _w_remove_ens(c, w=w, task=task).items():
        out["pool_remove.on_its_worker." + nm] = g
    # C01 / C04: no other worker changes (availability, residents)
    out["pool_remove.other_workers_untouched"] = z3.ForAll(
        [k],
        z3.Implies(
            z3.And(0 <= k, k < n, wk != w),
            z3.And(V(c.post, rv(c.pre, wres(c.pre, wk))) == V(c.pre, rv(c.pre, wres(c.pre, wk))), c.post.d_doms(PT, wpt(c.pre, wk)) == c.pre.d_doms(PT, wpt(c.pre, wk))),
        ),
        patterns=[wk],
    )
    out["pool_remove.resident_nowhere"] = z3.ForAll([k], z3.Implies(z3.And(0 <= k, k < n), z3.Not(c.post.d_dom(PT, wpt(c.pre, wk), task))), patterns=[wk])
    out["pool_remove.map_entry_dropped"] = z3.And(
        z3.Not(c.post.d_dom(PoolPlaced, m, task)),
        z3.ForAll([t], z3.Implies(t != task, z3.And(c.post.d_dom(PoolPlaced, m, t) == c.pre.d_dom(PoolPlaced, m, t), c.post.d_val(PoolPlaced, m, t) == c.pre.d_val(PoolPlaced, m, t))), patterns=[c.post.d_dom(PoolPlaced, m, t)]),
    )
    for nm, g in wf_pool_parts(c.post, p).items():
        out["pool_remove.preserves_pool_invariant." + nm] = g
    for nm, g in pool_map_parts(c.post, p).items():
        out["pool_remove.preserves_map_agreement." + nm] = g
    return out


def kstar(c, p, wid):
    return z3.Select(z3.Select(c.pre.carr(WorkerMap, "idx")[1], pool_workers(c.pre, p)), wid)


def _premove_at_del(c, L):
    p, task, wid, w = _premove_names(c)
    n = n_workers(c.pre, p)
    k = z3.Int(H.fresh_name("pa_k"))
    wk = worker_at(c.pre, p, k)
    ks = kstar(c, p, wid)
    return {
        "its_worker_is_a_pool_worker": z3.And(0 <= ks, ks < n, worker_at(c.pre, p, ks) == w),
        "other_workers_footprint_untouched": z3.ForAll(
            [k],
            z3.Implies(
                z3.And(0 <= k, k < n, k != ks),
                z3.And(
                    V(c.post, rv(c.pre, wres(c.pre, wk))) == V(c.pre, rv(c.pre, wres(c.pre, wk))),
                    *[z3.Select(c.post.carr(PT, part)[1], wpt(c.pre, wk)) == z3.Select(c.pre.carr(PT, part)[1], wpt(c.pre, wk)) for part in ("len", "keys", "idx", "dom", "val")],
                    *[z3.Select(c.post.carr(PB, part)[1], wpb(c.pre, wk)) == z3.Select(c.pre.carr(PB, part)[1], wpb(c.pre, wk)) for part in ("len", "keys", "idx", "dom", "val")],
                    *[z3.Select(c.post.carr(BT, part)[1], wbt(c.pre, wk)) == z3.Select(c.pre.carr(BT, part)[1], wbt(c.pre, wk)) for part in ("len", "keys", "idx", "dom", "val")],
                    *[z3.Select(c.post.carr(AM, part)[1], am(c.pre, wres(c.pre, wk))) == z3.Select(c.pre.carr(AM, part)[1], am(c.pre, wres(c.pre, wk))) for part in ("len", "keys", "idx", "dom", "val")],
                ),
            ),
            patterns=[wk],
        ),
    }


Contract(
    "workers.workers.WorkerPool.remove_task#body",
    at={"del self._placed_tasks[task]": _premove_at_del},
    params={"self": S_.WorkerPool.ty, "current_time": ETy, "task": S_.TASKR},
    requires=_premove_requires,
    raises={"ValueError": _premove_raises},
    modifies=_premove_mod,
    ensures=_premove_ens,
    entry_facts=lambda c: [closed_pool(c)],
    note="the body of WorkerPool.remove_task in terms of the proved Worker.remove_task, under the pool invariant and the agreement of the pool's task->worker map with the workers; callers (the finish handler) use an abstract contract that says no Task / Event / queue field is touched",
    props=("C04", "C01"),
)


# =================================================================================================
# WorkerPool.place_task : the body in terms of Worker.can_accomodate_strategy / Worker.place_task (C01 / C04)
# =================================================================================================
from contracts.c_workers import _place_ens as _w_place_ens, _place_mod as _w_place_mod, request_ok  # noqa: E402

STRATQ = "workload.strategy.ExecutionStrategy"


def _pplace_requires(c):
    p, task, s = c.arg("self"), c.arg("task"), c.arg("execution_strategy")
    n = n_workers(c.pre, p)
    k = z3.Int(H.fresh_name("pq_k"))
    wk = worker_at(c.pre, p, k)
    out = dict(wf_pool_parts(c.pre, p))
    out.update(pool_map_parts(c.pre, p))
    out["no_pool_level_scheduler"] = c.pre.rd(p, POOL, "_scheduler")[1] == 0
    out["strategy_given"] = z3.And(s != 0, c.pre.rd(s, STRATQ, "_batch_size")[1] >= 1)
    out["task_given"] = z3.And(task != 0, c.pre.cls_tag(task) == CLASSES[TASK].code, wf_task(c.pre, task))
    # call-site conditions of Worker.place_task, for every worker of the pool
    out["request_ok_everywhere"] = z3.ForAll([k], z3.Implies(z3.And(0 <= k, k < n), request_ok(c.pre, wk, s)), patterns=[wk])
    out["task_resident_nowhere"] = z3.ForAll(
        [k], z3.Implies(z3.And(0 <= k, k < n), z3.And(z3.Not(c.pre.d_dom(PT, wpt(c.pre, wk), task)), z3.Not(c.pre.d_dom(AM, am(c.pre, wres(c.pre, wk)), task)))), patterns=[wk]
    )
    return out


def _pplace_sel(c):
    """(named, worker named by worker_id, predicate 'k is the first worker that accepts the strategy')"""
    p, s, wid = c.arg("self"), c.arg("execution_strategy"), c.arg("worker_id")
    n = n_workers(c.pre, p)
    named = z3.Not(T.opt_is_none(S_.OptSTR, wid))
    wid_s = T.opt_get(S_.OptSTR, wid)

    def first_fit(k):
        j = z3.Int(H.fresh_name("ff_j"))
        wj = worker_at(c.pre, p, j)
        return z3.And(0 <= k, k < n, worker_fits(c.pre, worker_at(c.pre, p, k), s), z3.ForAll([j], z3.Implies(z3.And(0 <= j, j < k), z3.Not(worker_fits(c.pre, wj, s))), patterns=[wj]))

    return named, wid_s, first_fit


def _batch_full_on(c, w, s):
    pb = wpb(c.pre, w)
    return z3.And(is_batch(c.pre, s), c.pre.d_dom(PB, pb, s), c.pre.c_len(TS, c.pre.d_val(PB, pb, s)) + 1 > c.pre.rd(s, STRATQ, "_batch_size")[1])


def _pplace_raises_value(c):
    p = c.arg("self")
    named, wid_s, _ = _pplace_sel(c)
    return z3.And(named, z3.Not(c.pre.d_dom(WorkerMap, pool_workers(c.pre, p), wid_s)))


def _pplace_raises_runtime(c):
    """Worker.place_task refuses to over-fill an open batch: only on the worker the task is sent to"""
    p, s = c.arg("self"), c.arg("execution_strategy")
    named, wid_s, first_fit = _pplace_sel(c)
    k = z3.Int(H.fresh_name("rr_k"))
    wn = worker_by_id(c.pre, p, wid_s)
    return z3.If(
        named,
        z3.And(c.pre.d_dom(WorkerMap, pool_workers(c.pre, p), wid_s), worker_fits(c.pre, wn, s), _batch_full_on(c, wn, s)),
        z3.Exists([k], z3.And(first_fit(k), _batch_full_on(c, worker_at(c.pre, p, k), s))),
    )


def _pplace_mod(c):
    """any worker of the pool may be the one that changes: the frame is stated per array (ANY) and made precise by the
    postcondition `others untouched`"""
    p = c.arg("self")
    out = {}
    for ty, parts in ((RV, ("val",)), (AM, ("len", "keys", "idx", "dom", "val")), (S_.AllocList, ("len", "elem")), (PT, ("len", "keys", "idx", "dom", "val")), (PB, ("len", "keys", "idx", "dom", "val")), (BT, ("len", "keys", "idx", "dom", "val")), (TS, ("len", "keys", "idx", "dom"))):
        for part in parts:
            out[c.pre.carr(ty, part)[0]] = ANY
    for part in ("len", "keys", "idx", "dom", "val"):
        out[c.pre.carr(PoolPlaced, part)[0]] = [pool_map(c.pre, p)]
    return out


def _footprint_same(c, h, w):
    """the containers a worker owns are as they were on entry (availability, allocation map, resident / batch maps)"""
    R = wres(c.pre, w)
    same = lambda ty, part, d: z3.Select(h.carr(ty, part)[1], d) == z3.Select(c.pre.carr(ty, part)[1], d)
    return z3.And(
        same(RV, "val", rv(c.pre, R)),
        *[same(AM, part, am(c.pre, R)) for part in ("len", "keys", "idx", "dom", "val")],
        *[same(PT, part, wpt(c.pre, w)) for part in ("len", "keys", "idx", "dom", "val")],
        *[same(PB, part, wpb(c.pre, w)) for part in ("len", "keys", "idx", "dom", "val")],
        *[same(BT, part, wbt(c.pre, w)) for part in ("len", "keys", "idx", "dom", "val")],
    )


def _all_same(c, h):
    arrs = []
    for ty, parts in ((RV, ("val",)), (AM, ("len", "keys", "idx", "dom", "val")), (S_.AllocList, ("len", "elem")), (PT, ("len", "keys", "idx", "dom", "val")), (PB, ("len", "keys", "idx", "dom", "val")), (BT, ("len", "keys", "idx", "dom", "val")), (TS, ("len", "keys", "idx", "dom")), (PoolPlaced, ("len", "keys", "idx", "dom", "val"))):
        for part in parts:
            arrs.append(h.carr(ty, part)[1] == c.pre.carr(ty, part)[1])
    return z3.And(*arrs)


def _pplace_ens(c):
    p, task, s, wid = c.arg("self"), c.arg("task"), c.arg("execution_strategy"), c.arg("worker_id")
    n = n_workers(c.pre, p)
    d = pool_workers(c.pre, p)
    k, j = z3.Int(H.fresh_name("pp_k")), z3.Int(H.fresh_name("pp_j"))
    wk, wj = worker_at(c.pre, p, k), worker_at(c.pre, p, j)
    m = pool_map(c.pre, p)
    named = z3.Not(T.opt_is_none(S_.OptSTR, wid))
    wid_s = T.opt_get(S_.OptSTR, wid)
    fits_k = worker_fits(c.pre, wk, s)
    some_fits = z3.Exists([k], z3.And(0 <= k, k < n, fits_k))
    # the worker the task went to, read off the post-state
    ks = z3.Select(z3.Select(c.pre.carr(WorkerMap, "idx")[1], d), c.post.d_val(PoolPlaced, m, task))
    ws = worker_at(c.pre, p, ks)
    out = {
        # C04: "a refused request changes nothing"
        "pool_place.false_changes_nothing": z3.Implies(z3.Not(c.res), _all_same(c, c.post)),
        "pool_place.true_iff_a_worker_fits": c.res == z3.If(named, worker_fits(c.pre, worker_by_id(c.pre, p, wid_s), s), some_fits),
        # C01: the task goes to exactly ONE worker; that worker accepted the strategy; every other worker is untouched
        "pool_place.on_exactly_one_worker": z3.Implies(
            c.res,
            z3.And(
                0 <= ks,
                ks < n,
                c.post.d_dom(PoolPlaced, m, task),
                c.post.d_val(PoolPlaced, m, task) == c.pre.d_key(WorkerMap, d, ks),
                worker_fits(c.pre, ws, s),
                c.post.d_dom(PT, wpt(c.pre, ws), task),
                c.post.d_val(PT, wpt(c.pre, ws), task) == s,
                z3.ForAll([j], z3.Implies(z3.And(0 <= j, j < n, j != ks), _footprint_same(c, c.post, wj)), patterns=[wj]),
            ),
        ),
        # first fit: without a worker id it is the FIRST worker (in pool order) that accepts the strategy
        "pool_place.first_fit": z3.Implies(z3.And(c.res, z3.Not(named)), z3.ForAll([j], z3.Implies(z3.And(0 <= j, j < ks), z3.Not(worker_fits(c.pre, wj, s))), patterns=[wj])),
        "pool_place.named_worker": z3.Implies(z3.And(c.res, named), c.pre.d_key(WorkerMap, d, ks) == wid_s),
    }
    for nm, g in wf_pool_parts(c.post, p).items():
        out["pool_place.preserves_pool_invariant." + nm] = g
    for nm, g in pool_map_parts(c.post, p).items():
        out["pool_place.preserves_map_agreement." + nm] = g
    return out


def _pplace_loop1_inv(c, L):
    """the scan for the first worker that accepts the strategy: nothing found, nothing changed so far"""
    p, s = c.arg("self"), c.arg("execution_strategy")
    j = z3.Int(H.fresh_name("pl_j"))
    wj = worker_at(c.pre, p, j)
    return {
        "nothing_found_yet": T.opt_is_none(S_.OptSTR, L.var("placement")),
        "earlier_workers_refuse": z3.ForAll([j], z3.Implies(z3.And(0 <= j, j < L.i), z3.Not(worker_fits(c.pre, wj, s))), patterns=[wj]),
        "nothing_changed": _all_same(c, c.post),
    }


Contract(
    "workers.workers.WorkerPool.place_task#body",
    params={"self": S_.WorkerPool.ty, "task": S_.TASKR, "execution_strategy": S_.nullable(STRATQ), "worker_id": S_.OptSTR},
    ret=T.BOOL,
    requires=_pplace_requires,
    raises={"ValueError": _pplace_raises_value, "RuntimeError": _pplace_raises_runtime},
    modifies=_pplace_mod,
    loops={1: Loop(inv=_pplace_loop1_inv, modifies=lambda c: {})},
    locals={"placement": S_.OptSTR},
    ensures=_pplace_ens,
    entry_facts=lambda c: [closed_pool(c)],
    allocates=True,
    note="the body of WorkerPool.place_task for the calls the simulator and the policies make (an execution strategy is given, no pool-level scheduler is configured): verified in terms of the proved Worker.can_accomodate_strategy / Worker.place_task; the two branches excluded by the precondition (strategy None: first strategy of the task that fits; a pool-level scheduler) are NOT verified",
    props=("C01", "C04", "C13", "C10"),
)


# =================================================================================================
# get_placed_tasks : the tasks resident on a pool / on the cluster (used by the main loop and the frontier, C03 / C05)
# =================================================================================================
from contracts.c_simulator import WPS, PoolMap  # noqa: E402


def pools_dict(h, wps):
    return h.rd(wps, WPS, "_worker_pools")[1]


def pool_k(h, wps, k):
    d = pools_dict(h, wps)
    return h.d_val(PoolMap, d, h.d_key(PoolMap, d, k))


Contract(
    "workers.workers.WorkerPool.get_placed_tasks",
    params={"self": S_.WorkerPool.ty},
    ret=TaskList,
    ensures=lambda c: {
        "pool_placed.exactly_the_mapped_tasks": z3.ForAll(
            [z3.Int("gp_t")], c.post.l_mem(TaskList, c.res, z3.Int("gp_t")) == c.pre.d_dom(PoolPlaced, pool_map(c.pre, c.arg("self")), z3.Int("gp_t")), patterns=[c.post.l_mem(TaskList, c.res, z3.Int("gp_t"))]
        ),
        "pool_placed.fresh_list": c.res >= c.alloc0,
    },
    allocates=True,
    props=("C03", "C05", "C01"),
)


def _wps_gpt_requires(c):
    wps = c.arg("self")
    k = z3.Int(H.fresh_name("wq_k"))
    pk = pool_k(c.pre, wps, k)
    n = c.pre.c_len(PoolMap, pools_dict(c.pre, wps))
    t = z3.Int(H.fresh_name("wq_t"))
    # (a consequence of the pool invariant and the agreement of the pool's map with its workers, stated directly: a
    # mapped task is resident on a worker, and residents are well formed)
    return {
        "pools_not_none": z3.ForAll([k], z3.Implies(z3.And(0 <= k, k < n), pk != 0), patterns=[pk]),
        "mapped_tasks_wf": z3.ForAll([k, t], z3.Implies(z3.And(0 <= k, k < n, c.pre.d_dom(PoolPlaced, pool_map(c.pre, pk), t)), wf_task(c.pre, t)), patterns=[c.pre.d_dom(PoolPlaced, pool_map(c.pre, pk), t)]),
    }


def _wps_gpt_inv(c, L):
    h = c.post
    out = L.var("placed_tasks")
    x = z3.Int(H.fresh_name("wi_x"))
    return {
        "list_fresh": z3.And(out >= c.alloc0, out < c.run.cur_alloc()),
        "members_are_old_wf_tasks": z3.ForAll([x], z3.Implies(h.l_mem(TaskList, out, x), z3.And(x > 0, x < c.alloc0, wf_task(c.pre, x))), patterns=[h.l_mem(TaskList, out, x)]),
    }


def _wps_gpt_mod(c):
    fr = c.run.frames[-1].env
    t = fr.get("placed_tasks")
    return {c.pre.carr(TaskList, p_)[0]: [t.z] for p_ in ("len", "elem")}


def closed_pools(c):
    wps = c.arg("self")
    k, t = z3.Int(H.fresh_name("cq_k")), z3.Int(H.fresh_name("cq_t"))
    pk = pool_k(c.pre, wps, k)
    n = c.pre.c_len(PoolMap, pools_dict(c.pre, wps))
    return Fact(
        "heap.closed",
        z3.And(
            pools_dict(c.pre, wps) < c.alloc0,
            z3.ForAll([k], z3.Implies(z3.And(0 <= k, k < n), z3.And(pk < c.alloc0, pool_map(c.pre, pk) < c.alloc0)), patterns=[pk]),
            z3.ForAll([k, t], z3.Implies(z3.And(0 <= k, k < n, c.pre.d_dom(PoolPlaced, pool_map(c.pre, pk), t)), z3.And(0 < t, t < c.alloc0)), patterns=[c.pre.d_dom(PoolPlaced, pool_map(c.pre, pk), t)]),
        ),
    )


def _wps_gpt_ens(c):
    from contracts.c_handlers import CONTRACTS_get_placed_tasks_text

    return {"cluster_placed.abstract_contract_holds": CONTRACTS_get_placed_tasks_text(c)}


Contract(
    "workers.workers.WorkerPools.get_placed_tasks#body",
    params={"self": T.Ref(WPS)},
    ret=TaskList,
    requires=_wps_gpt_requires,
    loops={0: Loop(inv=_wps_gpt_inv, modifies=_wps_gpt_mod)},
    locals={"placed_tasks": TaskList},
    ensures=_wps_gpt_ens,
    entry_facts=lambda c: [closed_pools(c)],
    exit_facts=lambda c: [Fact("list.index_mem", c.post.l_index_mem(TaskList, c.res))],
    allocates=True,
    note="the abstract contract used by the main loop (a fresh list of pre-existing, well-formed tasks) verified against the body under the pool invariant and the agreement of each pool's task map with its workers",
    props=("C03", "C05"),
)


# =================================================================================================
# WorkerPool.resources : the pool-level view of the ledgers is an observation (C04, seed C04-3)
# =================================================================================================
Contract(
    "workers.workers.WorkerPool.resources",
    params={"self": S_.WorkerPool.ty},
    ret=T.Ref("workload.resources.Resources"),
    requires=lambda c: {
        "workers_not_none": z3.ForAll(
            [z3.Int("pr_k")],
            z3.Implies(z3.And(0 <= z3.Int("pr_k"), z3.Int("pr_k") < n_workers(c.pre, c.arg("self"))), z3.And(worker_at(c.pre, c.arg("self"), z3.Int("pr_k")) != 0, wres(c.pre, worker_at(c.pre, c.arg("self"), z3.Int("pr_k"))) != 0)),
            patterns=[worker_at(c.pre, c.arg("self"), z3.Int("pr_k"))],
        )
    },
    modifies=lambda c: {},
    loops={0: Loop(inv=lambda c, L: {"sum_is_a_fresh_object": z3.And(L.var("final_resources") >= c.alloc0, L.var("final_resources") < c.run.cur_alloc())}, modifies=lambda c: {})},
    ensures=lambda c: {"pool_resources.fresh_view": c.res >= c.alloc0},
    allocates=True,
    note="C04: reading the pool-level resources builds a fresh sum (Resources.__add__, proved to write no pre-existing object) and writes nothing that existed before (frame obligations)",
    props=("C04",),
)
