"""WorkerPool-level functions verified against concrete ('#body') contracts.

The scheduler / handler proofs use abstract contracts of these functions (ghost occupancy version, c_sched / c_handlers).
The contracts here state what the real bodies do in terms of the Worker-level specifications and are verified against
the source; callers keep the abstract contracts."""
import z3

from pyvc import ty as T
from pyvc import heap as H
from pyvc.engine import Fact, Step
from pyvc.registry import ANY, CLASSES, Contract, Loop
from contracts import shapes as S_
from contracts.c_workers import worker_fits

POOL = "workers.workers.WorkerPool"
WorkerMap = S_.WorkerMap


def pool_workers(h, p):
    return h.rd(p, POOL, "_workers")[1]


def worker_at(h, p, k):
    d = pool_workers(h, p)
    return h.d_val(WorkerMap, d, h.d_key(WorkerMap, d, k))


def some_worker_fits(h, p, s):
    k = z3.Int(H.fresh_name("pf_k"))
    return z3.Exists([k], z3.And(0 <= k, k < h.c_len(WorkerMap, pool_workers(h, p)), worker_fits(h, worker_at(h, p, k), s)))


Contract(
    "workers.workers.WorkerPool.can_accomodate_strategy#body",
    params={"self": S_.WorkerPool.ty, "execution_strategy": S_.STRAT},
    ret=T.BOOL,
    # C13 / C10: the pool-level fit test used by EDF / FIFO / LSF is true exactly when SOME worker of the pool fits
    ensures=lambda c: {"pool_fits.iff_some_worker_fits": c.res == some_worker_fits(c.pre, c.arg("self"), c.arg("execution_strategy"))},
    note="concrete contract of the body; callers use the abstract contract (a function of the pool's ghost occupancy version)",
    props=("C13", "C10", "C04"),
)


# =================================================================================================
# WorkerPool.step : the body against the abstract contract the simulator proofs use (C03 / C05)
# =================================================================================================
from contracts.c_workers import wf_worker, _placed_tasks_wf, wap, wpp, wpt, step_finishes, step_rel, TaskList, PT, PF, closed_wmaps  # noqa: E402
from contracts.c_tasks import TASK, wf_task, some, get, RUNNING  # noqa: E402
from contracts.c_utils import ETy, us  # noqa: E402

WORKER = "workers.workers.Worker"


def n_workers(h, p):
    return h.c_len(WorkerMap, pool_workers(h, p))


def wf_pool_parts(h, p):
    """Pool invariant: every worker satisfies the ledger invariant WF_W (and the Task invariant for its residents); the
    workers are distinct objects with separate profile maps; a task is resident on at most one worker (C01)."""
    k, k2, t = z3.Int(H.fresh_name("wp_k")), z3.Int(H.fresh_name("wp_k2")), z3.Int(H.fresh_name("wp_t"))
    n = n_workers(h, p)
    wk, wk2 = worker_at(h, p, k), worker_at(h, p, k2)
    return {
        "workers_wf": z3.ForAll([k], z3.Implies(z3.And(0 <= k, k < n), z3.And(wk != 0, wf_worker(h, wk), _placed_tasks_wf(h, wk), wap(h, wk) != wpp(h, wk))), patterns=[wk]),
        "workers_separate": z3.ForAll(
            [k, k2],
            z3.Implies(
                z3.And(0 <= k, k < k2, k2 < n),
                z3.And(wk != wk2, wap(h, wk) != wap(h, wk2), wap(h, wk) != wpp(h, wk2), wpp(h, wk) != wap(h, wk2), wpp(h, wk) != wpp(h, wk2), wpt(h, wk) != wpt(h, wk2)),
            ),
            patterns=[z3.MultiPattern(wk, wk2)],
        ),
        "resident_on_one_worker": z3.ForAll(
            [k, k2, t],
            z3.Implies(z3.And(0 <= k, k < k2, k2 < n), z3.Not(z3.And(h.d_dom(PT, wpt(h, wk), t), h.d_dom(PT, wpt(h, wk2), t)))),
            patterns=[z3.MultiPattern(h.d_dom(PT, wpt(h, wk), t), h.d_dom(PT, wpt(h, wk2), t))],
        ),
    }


def _pstep_requires(c):
    out = dict(wf_pool_parts(c.pre, c.arg("self")))
    out["step_nonneg"] = us(c.arg("step_size")) >= 0
    return out


def _pstep_mod(c):
    out = {
        c.pre.fld_arr(TASK, "_remaining_time")[0]: ANY,
        c.pre.fld_arr(TASK, "_last_step_time")[0]: ANY,
        c.pre.fld_arr("workload.strategy.ExecutionStrategy", "_runtime")[0]: ANY,
    }
    for part in ("len", "keys", "idx", "dom", "val"):
        out[c.pre.carr(PF, part)[0]] = ANY
    return out


def _collected_ok(c, h, lst, upto):
    """what the abstract contract of WorkerPool.step promises about every returned task"""
    j = z3.Int(H.fresh_name("pc_j"))
    t = h.l_elem(TaskList, lst, j)
    rem0 = c.pre.rd(t, TASK, "_remaining_time")[1]
    rem1 = h.rd(t, TASK, "_remaining_time")[1]
    parts = {
        "old_object": z3.And(t > 0, t < c.alloc0),
        "was_running": c.pre.rd(t, TASK, "_state")[1] == RUNNING,
        "now_zero": z3.And(some(rem1), us(get(rem1)) == 0),
        "was_positive": z3.And(some(rem0), us(get(rem0)) > 0),
    }
    return {nm: z3.ForAll([j], z3.Implies(z3.And(0 <= j, j < upto), g), patterns=[h.l_elem(TaskList, lst, j)]) for nm, g in parts.items()}


def _pstep_inv(c, L):
    p = c.arg("self")
    h = c.post
    n = n_workers(c.pre, p)
    k, t = z3.Int(H.fresh_name("pi_k")), z3.Int(H.fresh_name("pi_t"))
    wk = worker_at(c.pre, p, k)
    res = L.var("completed_tasks")
    rem = lambda hh: hh.rd(t, TASK, "_remaining_time")[1]
    last = lambda hh: hh.rd(t, TASK, "_last_step_time")[1]
    pf_same = lambda d: z3.And(*[z3.Select(h.carr(PF, part)[1], d) == z3.Select(c.pre.carr(PF, part)[1], d) for part in ("len", "keys", "idx", "dom", "val")])
    return {
        "list_fresh": res >= c.alloc0,
        **{"collected." + nm: g for nm, g in _collected_ok(c, h, res, h.c_len(TaskList, res)).items()},
        # the residents of the workers still to be stepped are untouched, and so are those workers' profile maps
        "later_residents_untouched": z3.ForAll(
            [k, t], z3.Implies(z3.And(L.i <= k, k < n, c.pre.d_dom(PT, wpt(c.pre, wk), t)), z3.And(rem(h) == rem(c.pre), last(h) == last(c.pre))), patterns=[z3.MultiPattern(wk, rem(h))]
        ),
        "later_profile_maps_untouched": z3.ForAll([k], z3.Implies(z3.And(L.i <= k, k < n), z3.And(pf_same(wap(c.pre, wk)), pf_same(wpp(c.pre, wk)))), patterns=[wk]),
        "nonresidents_untouched": z3.ForAll(
            [t],
            z3.Implies(
                z3.And(0 < t, t < c.alloc0, z3.ForAll([k], z3.Implies(z3.And(0 <= k, k < n), z3.Not(c.pre.d_dom(PT, wpt(c.pre, wk), t))), patterns=[wk])),
                z3.And(rem(h) == rem(c.pre), last(h) == last(c.pre)),
            ),
            patterns=[rem(h)],
        ),
    }


def _pstep_loop_mod(c):
    fr = c.run.frames[-1].env
    res = fr.get("completed_tasks")
    out = _pstep_mod(c)
    out[c.pre.carr(TaskList, "len")[0]] = [res.z]
    out[c.pre.carr(TaskList, "elem")[0]] = [res.z]
    return out


def _pstep_lemmas(c, L, phase):
    if phase != "end":
        return []
    p = c.arg("self")
    h0, h1 = L.iter_heap, c.post  # the state at the start of this iteration / after its body
    res = L.var("completed_tasks")
    w = L.var("worker")
    now, d = c.arg("current_time"), c.arg("step_size")
    j = z3.Int(H.fresh_name("pl_j"))
    old_t, new_t = h0.l_elem(TaskList, res, j), h1.l_elem(TaskList, res, j)
    on_w = lambda t: c.pre.d_dom(PT, wpt(c.pre, w), t)
    return [
        Step("this_worker_is_ith", z3.And(0 <= L.i, L.i < n_workers(c.pre, p), w == worker_at(c.pre, p, L.i))),
        # a task collected earlier finished on an earlier worker: it is not resident on this one (its remaining time is 0,
        # the residents of this worker were untouched and a collected task had a positive remaining time)
        Step("collected_not_on_this_worker", z3.ForAll([j], z3.Implies(z3.And(0 <= j, j < h0.c_len(TaskList, res)), z3.Not(on_w(old_t))), patterns=[old_t])),
        Step("old_elements_kept", z3.ForAll([j], z3.Implies(z3.And(0 <= j, j < h0.c_len(TaskList, res)), new_t == old_t), patterns=[new_t])),
        Step("new_elements_on_this_worker", z3.ForAll([j], z3.Implies(z3.And(h0.c_len(TaskList, res) <= j, j < h1.c_len(TaskList, res)), on_w(new_t)), patterns=[new_t])),
        Step("old_elements_still_zero", z3.ForAll([j], z3.Implies(z3.And(0 <= j, j < h0.c_len(TaskList, res)), z3.And(some(h1.rd(new_t, TASK, "_remaining_time")[1]), us(get(h1.rd(new_t, TASK, "_remaining_time")[1])) == 0)), patterns=[new_t])),
        Step("new_elements_finished_here", z3.ForAll([j], z3.Implies(z3.And(h0.c_len(TaskList, res) <= j, j < h1.c_len(TaskList, res)), step_finishes(h0, new_t, now, d)), patterns=[new_t])),
        Step("new_elements_now_zero", z3.ForAll([j], z3.Implies(z3.And(h0.c_len(TaskList, res) <= j, j < h1.c_len(TaskList, res)), z3.And(some(h1.rd(new_t, TASK, "_remaining_time")[1]), us(get(h1.rd(new_t, TASK, "_remaining_time")[1])) == 0)), patterns=[new_t])),
    ]


def _pstep_ens(c):
    from contracts.c_simulator import _pool_step_ens

    p = c.arg("self")
    n = n_workers(c.pre, p)
    k, t = z3.Int(H.fresh_name("pe_k")), z3.Int(H.fresh_name("pe_t"))
    wk = worker_at(c.pre, p, k)
    rem = lambda hh: hh.rd(t, TASK, "_remaining_time")[1]
    last = lambda hh: hh.rd(t, TASK, "_last_step_time")[1]
    return {
        # exactly the text of the abstract contract (c_simulator) that Simulator.__step / simulate are verified against
        "pool_step.abstract_contract_holds": _pool_step_ens(c),
        # a task that is resident on no worker of the pool is not touched
        "pool_step.nonresidents_untouched": z3.ForAll(
            [t],
            z3.Implies(
                z3.And(0 < t, t < c.alloc0, z3.ForAll([k], z3.Implies(z3.And(0 <= k, k < n), z3.Not(c.pre.d_dom(PT, wpt(c.pre, wk), t))), patterns=[wk])),
                z3.And(rem(c.post) == rem(c.pre), last(c.post) == last(c.pre)),
            ),
            patterns=[rem(c.post)],
        ),
    }


def closed_pool(c):
    p = c.arg("self")
    k = z3.Int(H.fresh_name("cp_k"))
    wk = worker_at(c.pre, p, k)
    t = z3.Int(H.fresh_name("cp_t"))
    return Fact(
        "heap.closed",
        z3.And(
            pool_workers(c.pre, p) < c.alloc0,
            z3.ForAll([k], z3.Implies(z3.And(0 <= k, k < n_workers(c.pre, p)), z3.And(wk < c.alloc0, wpt(c.pre, wk) < c.alloc0, wap(c.pre, wk) < c.alloc0, wpp(c.pre, wk) < c.alloc0)), patterns=[wk]),
            z3.ForAll([k, t], z3.Implies(z3.And(0 <= k, k < n_workers(c.pre, p), c.pre.d_dom(PT, wpt(c.pre, wk), t)), z3.And(0 < t, t < c.alloc0)), patterns=[c.pre.d_dom(PT, wpt(c.pre, wk), t)]),
        ),
    )


Contract(
    "workers.workers.WorkerPool.step#body",
    params={"self": S_.WorkerPool.ty, "current_time": ETy, "step_size": ETy},
    ret=TaskList,
    requires=_pstep_requires,
    modifies=_pstep_mod,
    loops={0: Loop(inv=_pstep_inv, modifies=_pstep_loop_mod, lemmas=_pstep_lemmas)},
    locals={"completed_tasks": TaskList},
    ensures=_pstep_ens,
    entry_facts=lambda c: [closed_pool(c)],
    allocates=True,
    note="the body of WorkerPool.step verified against the abstract contract that Simulator.__step / simulate use, under the pool invariant (every worker WF_W, residents well formed, a task resident on at most one worker)",
    props=("C03", "C05", "C01"),
)
