"""Graph / TaskGraph accessors and Task.is_ready_to_run (C02, C18 function level)."""
import z3

from pyvc import ty as T
from pyvc import heap as H
from pyvc.engine import Fact, Step
from pyvc.registry import ANY, CLASSES, Contract, Loop, declare_ref, lemma, scan, assumption, observation
from contracts import shapes as S_
from contracts.c_utils import ETy, OptET, us
from contracts.c_tasks import TASK, SCHEDULED, PREEMPTED, EVICTED, COMPLETED, CANCELLED, state as _state

GRAPH = "workload.graph.Graph"
TG = "workload.tasks.TaskGraph"
TaskList = T.List(S_.TASKR)
Adj = T.Dict(S_.TASKR, TaskList, default="list")

Graph = declare_ref(GRAPH, {"_graph": Adj, "_parent_graph": Adj})
TaskGraph = declare_ref(TG, {"_name": T.STR, "_job_graph": T.Ref(None)}, bases=[GRAPH])
TaskGraph.fields["_job_graph"].nullable = True
TGR = TaskGraph.ty

P = ("C02", "C18")


def g_children(h, g):
    return h.rd(g, GRAPH, "_graph")[1]


def g_parents(h, g):
    return h.rd(g, GRAPH, "_parent_graph")[1]


def parents_list(h, g, t):
    """the list object holding t's parents (0 / junk when t has no entry yet)"""
    return h.d_val(Adj, g_parents(h, g), t)


def n_parents(h, g, t):
    pg = g_parents(h, g)
    return z3.If(h.d_dom(Adj, pg, t), h.c_len(TaskList, h.d_val(Adj, pg, t)), 0)


def parent_at(h, g, t, j):
    return h.l_elem(TaskList, h.d_val(Adj, g_parents(h, g), t), j)


def is_complete_state(s):
    return z3.Or(s == EVICTED, s == COMPLETED)


def task_state(h, t):
    return h.rd(t, TASK, "_state")[1]


def terminal(h, t):
    job = h.rd(t, TASK, "_creating_job")[1]
    return h.rd(job, "workload.jobs.Job", "_terminal")[1]


def parents_complete(h, g, t):
    """spec of the readiness test: join (terminal) -> some parent complete; otherwise all parents complete"""
    j = z3.Int(H.fresh_name("pc_j"))
    rng = z3.And(0 <= j, j < n_parents(h, g, t))
    pj = parent_at(h, g, t, j)
    return z3.If(
        terminal(h, t),
        z3.Exists([j], z3.And(rng, is_complete_state(task_state(h, pj)))),
        z3.ForAll([j], z3.Implies(rng, is_complete_state(task_state(h, pj)))),
    )


def ready_to_run(h, g, t):
    s = task_state(h, t)
    return z3.And(parents_complete(h, g, t), z3.Or(s == SCHEDULED, s == PREEMPTED))


def _adj_mod(c, d):
    return {c.pre.carr(Adj, p)[0]: [d] for p in ("len", "keys", "idx", "dom", "val")}


def _get_adj_contract(qname, which, field_fn, other_fn):
    def ens(c):
        g, node = c.arg("self"), c.arg("node")
        d = field_fn(c.pre, g)
        x = z3.Int(H.fresh_name("ga_x"))
        present = c.pre.d_dom(Adj, d, node)
        return {
            which + ".is_the_stored_list": z3.And(c.post.d_dom(Adj, d, node), c.res == c.post.d_val(Adj, d, node), c.res != 0),
            # defaultdict: a node without an entry gets a fresh empty list (the only possible side effect)
            which + ".existing_entry_returned": z3.Implies(present, c.res == c.pre.d_val(Adj, d, node)),
            which + ".missing_entry_is_fresh_empty": z3.Implies(z3.Not(present), z3.And(c.res >= c.alloc0, c.post.c_len(TaskList, c.res) == 0)),
            which + ".others_untouched": z3.ForAll(
                [x], z3.Implies(x != node, z3.And(c.post.d_dom(Adj, d, x) == c.pre.d_dom(Adj, d, x), c.post.d_val(Adj, d, x) == c.pre.d_val(Adj, d, x))), patterns=[c.post.d_dom(Adj, d, x), c.post.d_val(Adj, d, x), c.pre.d_dom(Adj, d, x)]
            ),
        }

    Contract(
        qname,
        params={"self": T.Ref(GRAPH), "node": S_.TASKR},
        ret=TaskList,
        requires=lambda c: {"maps_distinct": g_children(c.pre, c.arg("self")) != g_parents(c.pre, c.arg("self"))},
        raises={"ValueError": lambda c: z3.Not(c.pre.d_dom(Adj, g_children(c.pre, c.arg("self")), c.arg("node")))},
        modifies=lambda c: _adj_mod(c, field_fn(c.pre, c.arg("self"))),
        ensures=ens,
        allocates=True,
        props=P,
    )


_get_adj_contract("workload.graph.Graph.get_parents", "get_parents", g_parents, g_children)
Contract(
    "workload.graph.Graph.get_children",
    params={"self": T.Ref(GRAPH), "node": S_.TASKR},
    ret=TaskList,
    raises={"ValueError": lambda c: z3.Not(c.pre.d_dom(Adj, g_children(c.pre, c.arg("self")), c.arg("node")))},
    ensures=lambda c: {"get_children.is_the_stored_list": z3.And(c.res == c.pre.d_val(Adj, g_children(c.pre, c.arg("self")), c.arg("node")), c.res != 0)},
    props=P,
)


def _entries_kept(c, pg):
    x = z3.Int(H.fresh_name("ek_x"))
    return z3.ForAll([x], z3.Implies(c.pre.d_dom(Adj, pg, x), z3.And(c.post.d_dom(Adj, pg, x), c.post.d_val(Adj, pg, x) == c.pre.d_val(Adj, pg, x))), patterns=[c.post.d_dom(Adj, pg, x), c.post.d_val(Adj, pg, x)])


def _ready_ens(c):
    g, t = c.arg("task_graph"), c.arg("self")
    return {
        # C02: ready <=> (join: some parent complete | otherwise: all parents complete) and SCHEDULED or PREEMPTED.
        # Evaluated in the post-state: the only heap effect is the defaultdict entry for a parentless task.
        "ready.iff": c.res == ready_to_run(c.post, g, t),
        "ready.iff_pre": c.res == ready_to_run(c.pre, g, t),
        "ready.states": z3.Implies(c.res, z3.Or(task_state(c.pre, t) == SCHEDULED, task_state(c.pre, t) == PREEMPTED)),
        "ready.task_states_untouched": task_state(c.post, t) == task_state(c.pre, t),
        # the only heap effect is a defaultdict entry for a parentless task: existing parent entries stay as they were
        "ready.parent_entries_kept": _entries_kept(c, g_parents(c.pre, g)),
        "ready.new_entry_is_fresh_empty": z3.Implies(
            z3.And(z3.Not(c.pre.d_dom(Adj, g_parents(c.pre, g), t)), c.post.d_dom(Adj, g_parents(c.pre, g), t)),
            z3.And(c.post.d_val(Adj, g_parents(c.pre, g), t) >= c.alloc0, c.post.c_len(TaskList, c.post.d_val(Adj, g_parents(c.pre, g), t)) == 0),
        ),
    }


Contract(
    "workload.tasks.Task.is_ready_to_run",
    params={"self": S_.Task.ty, "task_graph": TGR},
    ret=T.BOOL,
    requires=lambda c: {
        "task_in_graph": c.pre.d_dom(Adj, g_children(c.pre, c.arg("task_graph")), c.arg("self")),
        "maps_distinct": g_children(c.pre, c.arg("task_graph")) != g_parents(c.pre, c.arg("task_graph")),
    },
    modifies=lambda c: _adj_mod(c, g_parents(c.pre, c.arg("task_graph"))),
    ensures=_ready_ens,
    allocates=True,
    props=P,
)


# =================================================================================================
# TaskGraph.notify_task_completion (C18 / C02 release rule, C07 conditional rule)
# =================================================================================================
from contracts.c_tasks import RUNNING, VIRTUAL, RELEASED  # noqa: E402
from contracts.c_utils import ETy as _ETy  # noqa: E402

TL2 = T.Tup(TaskList, TaskList)
RealList = T.List(T.REAL)
JOB = "workload.jobs.Job"
EPS = z3.RealVal("1/4503599627370496")

Contract("workload.tasks.Task.__eq__", params={"self": S_.Task.ty, "other": S_.Task.ty}, ret=T.BOOL, trusted=True,
         ensures=lambda c: c.res == (c.arg("self") == c.arg("other")),
         note="Task.__eq__ compares the 128-bit ids: identity, under the assumption that distinct Task objects have distinct ids", props=P + ("C07",))

Contract(
    "random.choices",
    params={"population": TaskList, "weights": RealList, "k": T.INT},
    ret=TaskList,
    trusted=True,
    allocates=True,
    ensures=lambda c: z3.And(
        c.res >= c.alloc0,
        c.post.c_len(TaskList, c.res) == c.arg("k"),
        # each drawn element is population[j] for some j whose weight is positive
        z3.Exists(
            [z3.Int("rc_j")],
            z3.And(0 <= z3.Int("rc_j"), z3.Int("rc_j") < c.pre.c_len(TaskList, c.arg("population")), c.post.l_elem(TaskList, c.res, 0) == c.pre.l_elem(TaskList, c.arg("population"), z3.Int("rc_j")), c.pre.l_elem(RealList, c.arg("weights"), z3.Int("rc_j")) > 0),
        ),
    ),
    note="random.choices(population, weights, k=1): the drawn element comes from the population and has a positive weight (a zero-weight element has a zero-length interval in the cumulative distribution)",
    props=P + ("C07",),
)

CLS = z3.Function("cancel_closure", z3.ArraySort(z3.IntSort(), z3.IntSort()), z3.IntSort(), z3.IntSort(), z3.IntSort(), z3.BoolSort())


def _cancel_ens(c):
    g, task = c.arg("self"), c.arg("task")
    x = z3.Int(H.fresh_name("tc_x"))
    cl = lambda y: CLS(c.pre.fld_arr(TASK, "_state")[2], g, task, y)
    return z3.And(
        c.res >= c.alloc0,
        z3.ForAll([x], c.post.l_mem(TaskList, c.res, x) == cl(x), patterns=[c.post.l_mem(TaskList, c.res, x), cl(x)]),
        z3.ForAll([x], z3.If(cl(x), z3.And(x > 0, x < c.alloc0, task_state(c.post, x) == CANCELLED), task_state(c.post, x) == task_state(c.pre, x)), patterns=[task_state(c.post, x), cl(x)]),
        cl(task),
    )


def child_at(h, g, t, j):
    return h.l_elem(TaskList, h.d_val(Adj, g_children(h, g), t), j)


def n_children(h, g, t):
    return h.c_len(TaskList, h.d_val(Adj, g_children(h, g), t))


def all_parents_complete(h, g, x):
    j = z3.Int(H.fresh_name("apc_j"))
    return z3.ForAll([j], z3.Implies(z3.And(0 <= j, j < n_parents(h, g, x)), is_complete_state(task_state(h, parent_at(h, g, x, j)))), patterns=[parent_at(h, g, x, j)])


def conditional(h, t):
    return h.rd(h.rd(t, TASK, "_creating_job")[1], JOB, "_conditional")[1]


def releasable_child(h, g, x):
    """C18: a child is released on completion of a parent iff it is not cancelled and (it is a join, or every parent is complete)"""
    return z3.And(task_state(h, x) != CANCELLED, z3.Or(terminal(h, x), all_parents_complete(h, g, x)))


def _ntc_requires(c):
    g, t = c.arg("self"), c.arg("task")
    j = z3.Int(H.fresh_name("nr_j"))
    ch = lambda k: child_at(c.pre, g, t, k)
    return {
        "maps_distinct": g_children(c.pre, g) != g_parents(c.pre, g),
        "children_in_graph": z3.ForAll([j], z3.Implies(z3.And(0 <= j, j < n_children(c.pre, g, t)), z3.And(ch(j) != 0, c.pre.d_dom(Adj, g_children(c.pre, g), ch(j)))), patterns=[ch(j)]),
    }


def _ntc_raises_value(c):
    return z3.Not(is_complete_state(task_state(c.pre, c.arg("task"))))


def _ntc_mod(c):
    g = c.arg("self")
    out = _adj_mod(c, g_parents(c.pre, g))
    for f in ("_state", "_cancellation_time", "_probability", "_remaining_time"):
        out[c.pre.fld_arr(TASK, f)[0]] = ANY
    return out


def _ntc_ens(c):
    g, t = c.arg("self"), c.arg("task")
    rel, can = T.tup_get(TL2, c.res, 0), T.tup_get(TL2, c.res, 1)
    x = z3.Int(H.fresh_name("ne_x"))
    j = z3.Int(H.fresh_name("ne_j"))
    is_child = lambda y: z3.Exists([j], z3.And(0 <= j, j < n_children(c.pre, g, t), child_at(c.pre, g, t, j) == y))
    cond = conditional(c.pre, t)
    return {
        "notify.only_for_complete_task": is_complete_state(task_state(c.pre, t)),
        # C18 / C02 (soundness direction; completeness is decided by the bounded stand-in): an ordinary task releases
        # only children that are not cancelled and are joins or have every parent complete; nothing is cancelled
        "release.only_unlocked_children": z3.Implies(
            z3.Not(cond), z3.ForAll([x], z3.Implies(c.post.l_mem(TaskList, rel, x), z3.And(is_child(x), releasable_child(c.pre, g, x))), patterns=[c.post.l_mem(TaskList, rel, x)])
        ),
        # C18 completeness direction ("exactly those children"): every unlocked, not cancelled child is released
        "release.every_unlocked_child": z3.Implies(
            z3.Not(cond),
            z3.ForAll([j], z3.Implies(z3.And(0 <= j, j < n_children(c.pre, g, t), releasable_child(c.pre, g, child_at(c.pre, g, t, j))), c.post.l_mem(TaskList, rel, child_at(c.pre, g, t, j))), patterns=[child_at(c.pre, g, t, j)]),
        ),
        "release.nothing_cancelled_unless_conditional": z3.Implies(z3.Not(cond), c.post.c_len(TaskList, can) == 0),
        # C07: for a conditional at most one child is released, it is a child, and its weight is positive
        "cond.at_most_one": z3.Implies(cond, c.post.c_len(TaskList, rel) <= 1),
        # C07: exactly one child is released - unless no child can run at all (every weight is zero), then none
        "cond.exactly_one_unless_no_child_can_run": z3.Implies(
            cond,
            z3.Or(
                c.post.c_len(TaskList, rel) == 1,
                z3.And(c.post.c_len(TaskList, rel) == 0, z3.ForAll([j], z3.Implies(z3.And(0 <= j, j < n_children(c.pre, g, t)), c.pre.rd(child_at(c.pre, g, t, j), TASK, "_probability")[1] <= EPS), patterns=[child_at(c.pre, g, t, j)])),
            ),
        ),
        # C07: the branch of every child that is not the released one is cancelled: each such child is CANCELLED on return
        "cond.children_not_taken_are_cancelled": z3.Implies(
            cond,
            z3.ForAll(
                [j],
                z3.Implies(
                    z3.And(0 <= j, j < n_children(c.pre, g, t)),
                    z3.Or(z3.And(c.post.c_len(TaskList, rel) == 1, child_at(c.pre, g, t, j) == c.post.l_elem(TaskList, rel, 0)), task_state(c.post, child_at(c.pre, g, t, j)) == CANCELLED),
                ),
                patterns=[child_at(c.pre, g, t, j)],
            ),
        ),
        # what is reported as cancelled IS cancelled now, with the finish time as its cancellation time; the lists are fresh
        "cancelled.are_cancelled_at_finish_time": z3.ForAll(
            [x],
            z3.Implies(c.post.l_mem(TaskList, can, x), z3.And(0 < x, task_state(c.post, x) == CANCELLED, c.post.rd(x, TASK, "_cancellation_time")[1] == T.opt_some(OptET, c.arg("finish_time")))),
            patterns=[c.post.l_mem(TaskList, can, x)],
        ),
        "released.are_old_tasks": z3.ForAll([x], z3.Implies(c.post.l_mem(TaskList, rel, x), z3.And(0 < x, x < c.alloc0)), patterns=[c.post.l_mem(TaskList, rel, x)]),
        "lists.fresh_and_distinct": z3.And(rel >= c.alloc0, can >= c.alloc0, rel != can),
        "cond.released_is_positive_weight_child": z3.Implies(
            z3.And(cond, c.post.c_len(TaskList, rel) == 1),
            z3.And(is_child(c.post.l_elem(TaskList, rel, 0)), c.pre.rd(c.post.l_elem(TaskList, rel, 0), TASK, "_probability")[1] > 0),
        ),
    }


def _ntc_loop_noncond_inv(c, L):
    g, t = c.arg("self"), c.arg("task")
    h = c.post
    rel = L.var("released_tasks")
    can = L.var("cancelled_tasks")
    x = z3.Int(H.fresh_name("nl_x"))
    j = z3.Int(H.fresh_name("nl_j"))
    is_child = lambda y: z3.Exists([j], z3.And(0 <= j, j < n_children(c.pre, g, t), child_at(c.pre, g, t, j) == y))
    return {
        "released_only_unlocked": z3.ForAll([x], z3.Implies(h.l_mem(TaskList, rel, x), z3.And(is_child(x), releasable_child(c.pre, g, x))), patterns=[h.l_mem(TaskList, rel, x)]),
        "cancelled_empty": h.c_len(TaskList, can) == 0,
        "lists_fresh": z3.And(rel >= c.alloc0, can >= c.alloc0, rel != can, rel < c.run.cur_alloc(), can < c.run.cur_alloc()),
        "states_untouched": h.fld_arr(TASK, "_state")[2] == c.pre.fld_arr(TASK, "_state")[2],
        "children_untouched": z3.And(h.d_vals(Adj, g_children(c.pre, g)) == c.pre.d_vals(Adj, g_children(c.pre, g)), h.carr(TaskList, "len")[1] == h.carr(TaskList, "len")[1]),
    }


def _pg_stable(c, h):
    g = c.arg("self")
    pg = g_parents(c.pre, g)
    x = z3.Int(H.fresh_name("pgs_x"))
    return z3.ForAll([x], z3.Implies(c.pre.d_dom(Adj, pg, x), z3.And(h.d_dom(Adj, pg, x), h.d_val(Adj, pg, x) == c.pre.d_val(Adj, pg, x))), patterns=[h.d_dom(Adj, pg, x), h.d_val(Adj, pg, x), c.pre.d_dom(Adj, pg, x)])


def _ntc_loop2_inv(c, L):
    d = _ntc_loop_noncond_inv(c, L)
    d["parent_graph_stable"] = _pg_stable(c, c.post)
    g, t = c.arg("self"), c.arg("task")
    k = z3.Int(H.fresh_name("nl_k"))
    ck = child_at(c.pre, g, t, k)
    # completeness direction: every child seen so far that is unlocked has been put on the release list
    pg = g_parents(c.pre, g)
    x = z3.Int(H.fresh_name("nl_x2"))
    # entries the defaultdict created during the loop hold empty lists (a task without an entry has no parents)
    d["new_parent_entries_empty"] = z3.ForAll(
        [x], z3.Implies(z3.And(c.post.d_dom(Adj, pg, x), z3.Not(c.pre.d_dom(Adj, pg, x))), z3.And(c.post.c_len(TaskList, c.post.d_val(Adj, pg, x)) == 0, c.post.d_val(Adj, pg, x) >= c.alloc0, c.post.d_val(Adj, pg, x) != L.var("released_tasks"))), patterns=[c.post.d_val(Adj, pg, x)]
    )
    d["released_every_unlocked_so_far"] = z3.ForAll(
        [k], z3.Implies(z3.And(0 <= k, k < L.i, k < n_children(c.pre, g, t), releasable_child(c.pre, g, ck)), c.post.l_mem(TaskList, L.var("released_tasks"), ck)), patterns=[child_at(c.pre, g, t, k)]
    )
    d.pop("children_untouched", None)
    return d


def _ntc_loop2_mod(c):
    g = c.arg("self")
    out = _adj_mod(c, g_parents(c.pre, g))
    fr = c.run.frames[-1].env
    rel = fr.get("released_tasks")
    out[c.pre.carr(TaskList, "len")[0]] = [rel.z]
    out[c.pre.carr(TaskList, "elem")[0]] = [rel.z]
    return out


def _ntc_cond_loop_inv(which):
    """the two loops of the conditional branch: 0 = no child can run, every child's branch is cancelled;
    1 = one child was drawn, the branch of every OTHER child is cancelled (C07)"""

    def inv(c, L):
        h = c.post
        g, t, ft = c.arg("self"), c.arg("task"), c.arg("finish_time")
        rel = L.var("released_tasks")
        can = L.var("cancelled_tasks")
        cl0 = c.pre.d_val(Adj, g_children(c.pre, g), t)
        x, j = z3.Int(H.fresh_name("ncl_x")), z3.Int(H.fresh_name("ncl_j"))
        cj = c.pre.l_elem(TaskList, cl0, j)
        spared = (cj == L.var("child_to_release")) if which == 1 else z3.BoolVal(False)
        return {
            "lists_fresh": z3.And(rel >= c.alloc0, can >= c.alloc0, rel != can, rel < c.run.cur_alloc(), can < c.run.cur_alloc()),
            "nothing_released_yet": h.c_len(TaskList, rel) == 0,
            "iterating_over_the_children": z3.And(L.seq.z == cl0, h.c_len(TaskList, cl0) == c.pre.c_len(TaskList, cl0), h.l_elems(TaskList, cl0) == c.pre.l_elems(TaskList, cl0)),
            # what is reported as cancelled IS cancelled, at the finish time
            "cancelled_carry_time": z3.ForAll(
                [x],
                z3.Implies(h.l_mem(TaskList, can, x), z3.And(0 < x, x < c.run.cur_alloc(), task_state(h, x) == CANCELLED, h.rd(x, TASK, "_cancellation_time")[1] == T.opt_some(OptET, ft))),
                patterns=[h.l_mem(TaskList, can, x)],
            ),
            # every child passed so far, except the drawn one, is CANCELLED now
            "earlier_children_cancelled": z3.ForAll([j], z3.Implies(z3.And(0 <= j, j < L.i), z3.Or(spared, task_state(h, cj) == CANCELLED)), patterns=[c.pre.l_elem(TaskList, cl0, j)]),
        }

    return inv


def _ntc_cond_loop_mod(c):
    out = _adj_mod(c, g_parents(c.pre, c.arg("self")))
    for f in ("_state", "_cancellation_time", "_probability", "_remaining_time"):
        out[c.pre.fld_arr(TASK, f)[0]] = ANY
    fr = c.run.frames[-1].env
    can = fr.get("cancelled_tasks")
    out[c.pre.carr(TaskList, "len")[0]] = [can.z]
    out[c.pre.carr(TaskList, "elem")[0]] = [can.z]
    return out


def _parents_bridge(c, ch):
    """the stored parent list of `ch` is the same object with the same contents as at function entry"""
    g = c.arg("self")
    pg = g_parents(c.pre, g)
    p0 = c.pre.d_val(Adj, pg, ch)
    j = z3.Int(H.fresh_name("nlb_j"))
    h = c.post
    return Step(
        "parents_list_unchanged",
        z3.Implies(
            c.pre.d_dom(Adj, pg, ch),
            z3.And(
                h.d_val(Adj, pg, ch) == p0,
                h.c_len(TaskList, p0) == c.pre.c_len(TaskList, p0),
                z3.ForAll([j], z3.Implies(z3.And(0 <= j, j < h.c_len(TaskList, p0)), h.l_elem(TaskList, p0, j) == c.pre.l_elem(TaskList, p0, j)), patterns=[h.l_elem(TaskList, p0, j), c.pre.l_elem(TaskList, p0, j)]),
            ),
        ),
    )


def _ntc_lemmas(c, L, phase):
    if phase == "start":
        # the current child is the i-th child of the completed task (witness for the existential in the invariant)
        g, t = c.arg("self"), c.arg("task")
        j = z3.Int(H.fresh_name("nlm_j"))
        ch = L.var("child")
        return [Step("child_is_ith_child", z3.And(0 <= L.i, L.i < n_children(c.pre, g, t), child_at(c.pre, g, t, L.i) == ch)),
                Step("child_is_a_child", z3.Exists([j], z3.And(0 <= j, j < n_children(c.pre, g, t), child_at(c.pre, g, t, j) == ch))),
                _parents_bridge(c, ch)]
    if phase == "exit":
        return [Fact("list.mem_def", c.pre.l_mem_def(TaskList, c.pre.d_val(Adj, g_children(c.pre, c.arg("self")), c.arg("task"))))]
    if phase == "end":
        return [_parents_bridge(c, L.var("child"))]
    return []


def closed_graph(c, g):
    """heap closedness: the adjacency lists stored in the graph (and the tasks in them) were allocated before entry"""
    x = z3.Int(H.fresh_name("cg_x"))
    j = z3.Int(H.fresh_name("cg_j"))
    facts = []
    for d in (g_children(c.pre, g), g_parents(c.pre, g)):
        lst = c.pre.d_val(Adj, d, x)
        facts.append(z3.ForAll([x], z3.Implies(c.pre.d_dom(Adj, d, x), z3.And(lst > 0, lst < c.alloc0, x < c.alloc0)), patterns=[c.pre.d_val(Adj, d, x)]))
        facts.append(z3.ForAll([x, j], z3.Implies(z3.And(c.pre.d_dom(Adj, d, x), 0 <= j, j < c.pre.c_len(TaskList, lst)), z3.And(c.pre.l_elem(TaskList, lst, j) > 0, c.pre.l_elem(TaskList, lst, j) < c.alloc0)), patterns=[c.pre.l_elem(TaskList, lst, j)]))
    return Fact("heap.closed", z3.And(*facts))


Contract(
    "workload.tasks.TaskGraph.notify_task_completion",
    params={"self": TGR, "task": S_.Task.ty, "finish_time": _ETy},
    ret=TL2,
    requires=_ntc_requires,
    may_raise=("RuntimeError", "ValueError", "IndexError", "AttributeError"),
    raise_unchanged=False,
    modifies=_ntc_mod,
    loops={
        0: Loop(inv=_ntc_cond_loop_inv(0), modifies=_ntc_cond_loop_mod),
        1: Loop(inv=_ntc_cond_loop_inv(1), modifies=_ntc_cond_loop_mod),
        2: Loop(inv=_ntc_loop2_inv, modifies=_ntc_loop2_mod, lemmas=_ntc_lemmas),
    },
    locals={"released_tasks": TaskList, "cancelled_tasks": TaskList},
    entry_facts=lambda c: [closed_graph(c, c.arg("self"))],
    ensures=_ntc_ens,
    allocates=True,
    note="may raise RuntimeError (a child already beyond SCHEDULED), ValueError (child weights do not sum to 1) or IndexError; those paths are not constrained beyond the stated ValueError condition",
    props=("C18", "C02", "C07"),
)


# =================================================================================================
# TaskGraph.get_releasable_tasks (C18: exactly the not-yet-released tasks whose every parent is complete)
# =================================================================================================
def releasable_state(s):
    return z3.Or(s == VIRTUAL, s == SCHEDULED, s == PREEMPTED)


def releasable_now(h, g, x):
    return z3.And(releasable_state(task_state(h, x)), all_parents_complete(h, g, x))


def _grt_inv(c, L):
    g = c.arg("self")
    h = c.post
    out = L.var("tasks_to_be_released")
    d = g_children(c.pre, g)
    pg = g_parents(c.pre, g)
    x = z3.Int(H.fresh_name("gr_x"))
    k = z3.Int(H.fresh_name("gr_k"))
    key = lambda j: c.pre.d_key(Adj, d, j)
    return {
        "list_fresh": z3.And(out >= c.alloc0, out < c.run.cur_alloc()),
        "states_untouched": h.fld_arr(TASK, "_state")[2] == c.pre.fld_arr(TASK, "_state")[2],
        "parent_graph_stable": _pg_stable(c, h),
        "new_parent_entries_empty": z3.ForAll(
            [x], z3.Implies(z3.And(h.d_dom(Adj, pg, x), z3.Not(c.pre.d_dom(Adj, pg, x))), z3.And(h.c_len(TaskList, h.d_val(Adj, pg, x)) == 0, h.d_val(Adj, pg, x) >= c.alloc0, h.d_val(Adj, pg, x) != out)), patterns=[h.d_val(Adj, pg, x)]
        ),
        # soundness: only graph nodes that are releasable now are collected
        "only_releasable": z3.ForAll([x], z3.Implies(h.l_mem(TaskList, out, x), z3.And(c.pre.d_dom(Adj, d, x), releasable_now(c.pre, g, x))), patterns=[h.l_mem(TaskList, out, x)]),
        # completeness: no releasable node seen so far is missing (nothing is starved)
        "every_releasable_so_far": z3.ForAll([k], z3.Implies(z3.And(0 <= k, k < L.i, k < c.pre.c_len(Adj, d), releasable_now(c.pre, g, key(k))), h.l_mem(TaskList, out, key(k))), patterns=[key(k)]),
    }


def _grt_mod(c):
    g = c.arg("self")
    out = _adj_mod(c, g_parents(c.pre, g))
    fr = c.run.frames[-1].env
    lst = fr.get("tasks_to_be_released")
    out[c.pre.carr(TaskList, "len")[0]] = [lst.z]
    out[c.pre.carr(TaskList, "elem")[0]] = [lst.z]
    return out


def _grt_lemmas(c, L, phase):
    if phase in ("start", "end"):
        return [_parents_bridge(c, L.var("task"))]
    return []


def _grt_ens(c):
    g = c.arg("self")
    d = g_children(c.pre, g)
    x = z3.Int(H.fresh_name("ge_x"))
    k = z3.Int(H.fresh_name("ge_k"))
    key = lambda j: c.pre.d_key(Adj, d, j)
    return {
        "releasable.only": z3.ForAll([x], z3.Implies(c.post.l_mem(TaskList, c.res, x), z3.And(c.pre.d_dom(Adj, d, x), releasable_now(c.pre, g, x))), patterns=[c.post.l_mem(TaskList, c.res, x)]),
        "releasable.none_starved": z3.ForAll([k], z3.Implies(z3.And(0 <= k, k < c.pre.c_len(Adj, d), releasable_now(c.pre, g, key(k))), c.post.l_mem(TaskList, c.res, key(k))), patterns=[key(k)]),
        "releasable.states_untouched": c.post.fld_arr(TASK, "_state")[2] == c.pre.fld_arr(TASK, "_state")[2],
    }


Contract(
    "workload.tasks.TaskGraph.get_releasable_tasks",
    params={"self": TGR},
    ret=TaskList,
    requires=lambda c: {"maps_distinct": g_children(c.pre, c.arg("self")) != g_parents(c.pre, c.arg("self"))},
    modifies=lambda c: _adj_mod(c, g_parents(c.pre, c.arg("self"))),
    loops={0: Loop(inv=_grt_inv, modifies=_grt_mod, lemmas=_grt_lemmas)},
    locals={"tasks_to_be_released": TaskList},
    entry_facts=lambda c: [closed_graph(c, c.arg("self"))],
    ensures=_grt_ens,
    allocates=True,
    note="the only heap effect is the defaultdict entry created for a parentless node",
    props=("C18", "C02"),
)


# =================================================================================================
# C06: a task graph is reported finished exactly when all its sink tasks completed
# (TaskGraph.is_sink_task / get_sink_tasks / is_complete / is_cancelled against the definition)
# =================================================================================================
OptINT = S_.OptINT if hasattr(S_, "OptINT") else None


def n_children(h, g, t):
    return h.c_len(TaskList, h.d_val(Adj, g_children(h, g), t))


def child_at0(h, g, t, j):
    return h.l_elem(TaskList, h.d_val(Adj, g_children(h, g), t), j)


def _ts(h, t):
    return T.opt_get(S_.OptINT, h.rd(t, TASK, "_timestamp")[1])


def _ts_known(h, t):
    return z3.Not(T.opt_is_none(S_.OptINT, h.rd(t, TASK, "_timestamp")[1]))


def is_sink_spec(h, g, t):
    """a sink: no child, or a single child that is the same task of the next timestamp"""
    c0 = child_at0(h, g, t, 0)
    return z3.Or(
        n_children(h, g, t) == 0,
        z3.And(n_children(h, g, t) == 1, h.rd(c0, TASK, "_name")[1] == h.rd(t, TASK, "_name")[1], _ts(h, c0) == _ts(h, t) + 1),
    )


def in_graph(h, g, t):
    return h.d_dom(Adj, g_children(h, g), t)


def graph_complete_spec(h, g):
    """C06: all sink tasks of the graph are complete (EVICTED / COMPLETED)"""
    t = z3.Int(H.fresh_name("gc_t"))
    return z3.ForAll([t], z3.Implies(z3.And(in_graph(h, g, t), is_sink_spec(h, g, t)), is_complete_state(task_state(h, t))), patterns=[in_graph(h, g, t)])


def graph_cancelled_spec(h, g):
    t = z3.Int(H.fresh_name("gx_t"))
    return z3.Exists([t], z3.And(in_graph(h, g, t), is_sink_spec(h, g, t), task_state(h, t) == CANCELLED))


def _children_wf(h, g):
    """every node has a child list object; children are non-null tasks"""
    t, j = z3.Int(H.fresh_name("cw_t")), z3.Int(H.fresh_name("cw_j"))
    return z3.And(
        z3.ForAll([t], z3.Implies(in_graph(h, g, t), z3.And(t != 0, h.d_val(Adj, g_children(h, g), t) != 0, _ts_known(h, t))), patterns=[in_graph(h, g, t)]),
        # children are nodes of the graph (add_child registers the child)
        z3.ForAll([t, j], z3.Implies(z3.And(in_graph(h, g, t), 0 <= j, j < n_children(h, g, t)), z3.And(child_at0(h, g, t, j) != 0, in_graph(h, g, child_at0(h, g, t, j)))), patterns=[child_at0(h, g, t, j)]),
    )


Contract("workload.graph.Graph.get_nodes", inline=True, props=("C06",))
Contract("workload.graph.Graph.filter", inline=True, props=("C06",))

Contract(
    TG + ".is_sink_task",
    params={"self": TGR, "task": S_.TASKR},
    ret=T.BOOL,
    requires=lambda c: {"children_wf": _children_wf(c.pre, c.arg("self"))},
    raises={"ValueError": lambda c: z3.Not(in_graph(c.pre, c.arg("self"), c.arg("task")))},
    ensures=lambda c: {"is_sink.by_definition": c.res == is_sink_spec(c.pre, c.arg("self"), c.arg("task"))},
    props=("C06",),
)

Contract(
    TG + ".get_sink_tasks",
    params={"self": TGR},
    ret=TaskList,
    requires=lambda c: {"children_wf": _children_wf(c.pre, c.arg("self"))},
    ensures=lambda c: {
        "sinks.exactly": z3.ForAll(
            [z3.Int("gs_t")],
            c.post.l_mem(TaskList, c.res, z3.Int("gs_t")) == z3.And(in_graph(c.pre, c.arg("self"), z3.Int("gs_t")), is_sink_spec(c.pre, c.arg("self"), z3.Int("gs_t"))),
            patterns=[c.post.l_mem(TaskList, c.res, z3.Int("gs_t"))],
        ),
        "sinks.fresh_list": c.res >= c.alloc0,
    },
    allocates=True,
    props=("C06",),
)

Contract(
    TG + ".is_complete#body",
    params={"self": TGR},
    ret=T.BOOL,
    requires=lambda c: {"children_wf": _children_wf(c.pre, c.arg("self"))},
    # C06: reported finished EXACTLY when all its sink tasks completed
    ensures=lambda c: {"graph_complete.iff_all_sinks_complete": c.res == graph_complete_spec(c.pre, c.arg("self"))},
    allocates=True,
    note="verified against the body; callers (the finish handler) use the abstract contract: a pure function of the task states",
    props=("C06", "C08"),
)

Contract(
    TG + ".is_cancelled#body",
    params={"self": TGR},
    ret=T.BOOL,
    requires=lambda c: {"children_wf": _children_wf(c.pre, c.arg("self"))},
    ensures=lambda c: {"graph_cancelled.iff_some_sink_cancelled": c.res == graph_cancelled_spec(c.pre, c.arg("self"))},
    allocates=True,
    note="verified against the body; callers use the abstract contract",
    props=("C06",),
)



def _graph_deadline_ens(c):
    """C08 (a task-graph deadline miss is measured against the LATEST task deadline of the graph)"""
    g = c.arg("self")
    t, t2 = z3.Int(H.fresh_name("gd_t")), z3.Int(H.fresh_name("gd_t2"))
    dl = lambda x: c.pre.rd(x, TASK, "_deadline")[1]
    return {
        "graph_deadline.no_task_deadline_is_later": z3.ForAll([t], z3.Implies(in_graph(c.pre, g, t), us(dl(t)) <= us(c.res)), patterns=[in_graph(c.pre, g, t)]),
        "graph_deadline.is_some_task_deadline": z3.Exists([t2], z3.And(in_graph(c.pre, g, t2), dl(t2) == c.res)),
    }


Contract(
    TG + ".deadline#body",
    params={"self": TGR},
    ret=ETy,
    requires=lambda c: {"children_wf": _children_wf(c.pre, c.arg("self"))},
    raises={"ValueError": lambda c: c.pre.c_len(Adj, g_children(c.pre, c.arg("self"))) == 0},
    ensures=_graph_deadline_ens,
    allocates=True,
    note="verified against the body (max over the nodes' deadlines; ValueError for a graph without nodes); callers (the finish handler) use the abstract contract: a pure function of the graph",
    props=("C08",),
)


# =================================================================================================
# TaskGraph.cancel, the body (C06 / C07): what the cascade does to the tasks it returns and to all the others.
# (WHICH tasks it reaches - the downstream closure up to joins with a live parent - is decided by the bounded stand-in.)
# =================================================================================================
from contracts.c_tasks import VIRTUAL as _VIRTUAL, RELEASED as _RELEASED, wf_task as _wf_task  # noqa: E402
from contracts.c_utils import OptET as _OptET  # noqa: E402


def _tgc_inv(c, L):
    g, task, time = c.arg("self"), c.arg("task"), c.arg("time")
    h = c.post
    can, fr_ = L.var("cancelled_tasks"), L.var("frontier")
    x, j = z3.Int(H.fresh_name("tc_x")), z3.Int(H.fresh_name("tc_j"))
    same = lambda f: h.rd(x, TASK, f)[1] == c.pre.rd(x, TASK, f)[1]
    return {
        "lists_fresh": z3.And(can >= c.alloc0, fr_ >= c.alloc0, can != fr_, can < c.run.cur_alloc(), fr_ < c.run.cur_alloc()),
        # every task collected so far is CANCELLED now, at the given time, and was not running
        "collected_are_cancelled_now": z3.ForAll(
            [x],
            z3.Implies(
                h.l_mem(TaskList, can, x),
                z3.And(
                    x > 0,
                    x < c.alloc0,
                    task_state(h, x) == CANCELLED,
                    h.rd(x, TASK, "_cancellation_time")[1] == T.opt_some(_OptET, time),
                    z3.Or(task_state(c.pre, x) == _VIRTUAL, task_state(c.pre, x) == _RELEASED, task_state(c.pre, x) == SCHEDULED),
                ),
            ),
            patterns=[h.l_mem(TaskList, can, x)],
        ),
        # every other pre-existing task is exactly as it was
        "others_untouched": z3.ForAll(
            [x],
            z3.Implies(z3.And(0 < x, x < c.alloc0, z3.Not(h.l_mem(TaskList, can, x))), z3.And(same("_state"), same("_cancellation_time"), same("_probability"), same("_remaining_time"))),
            patterns=[task_state(h, x)],
        ),
        "frontier_holds_old_tasks": z3.ForAll([j], z3.Implies(z3.And(0 <= j, j < h.c_len(TaskList, fr_)), z3.And(h.l_elem(TaskList, fr_, j) > 0, h.l_elem(TaskList, fr_, j) < c.alloc0)), patterns=[h.l_elem(TaskList, fr_, j)]),
        "start_task_first": z3.Implies(z3.And(z3.Not(h.l_mem(TaskList, can, task)), task_state(h, task) != CANCELLED), z3.And(h.c_len(TaskList, fr_) >= 1, h.l_elem(TaskList, fr_, 0) == task, h.c_len(TaskList, can) == 0, h.c_len(TaskList, fr_) == 1)),
        "graph_untouched": z3.And(*[z3.Select(h.carr(Adj, p_)[1], g_children(c.pre, g)) == z3.Select(c.pre.carr(Adj, p_)[1], g_children(c.pre, g)) for p_ in ("len", "keys", "idx", "dom", "val")]),
    }


def _tgc_mod(c):
    fr = c.run.frames[-1].env
    can, fr_ = fr.get("cancelled_tasks"), fr.get("frontier")
    out = {c.pre.fld_arr(TASK, f)[0]: ANY for f in ("_state", "_cancellation_time", "_probability", "_remaining_time")}
    out[c.pre.carr(TaskList, "len")[0]] = [can.z, fr_.z]
    out[c.pre.carr(TaskList, "elem")[0]] = [can.z, fr_.z]
    out.update(_adj_mod(c, g_parents(c.pre, c.arg("self"))))
    return out


def _tgc_ens(c):
    g, task, time = c.arg("self"), c.arg("task"), c.arg("time")
    x = z3.Int(H.fresh_name("te_x"))
    same = lambda f: c.post.rd(x, TASK, f)[1] == c.pre.rd(x, TASK, f)[1]
    return {
        "cancel.fresh_list": c.res >= c.alloc0,
        # C06: every task reported cancelled IS cancelled, at this time, and was not running / finished (only before it runs)
        "cancel.returned_are_cancelled_now": z3.ForAll(
            [x],
            z3.Implies(
                c.post.l_mem(TaskList, c.res, x),
                z3.And(
                    x > 0,
                    x < c.alloc0,
                    task_state(c.post, x) == CANCELLED,
                    c.post.rd(x, TASK, "_cancellation_time")[1] == T.opt_some(_OptET, time),
                    z3.Or(task_state(c.pre, x) == _VIRTUAL, task_state(c.pre, x) == _RELEASED, task_state(c.pre, x) == SCHEDULED),
                ),
            ),
            patterns=[c.post.l_mem(TaskList, c.res, x)],
        ),
        # C06: nothing else changes state: a task that is not reported keeps its state (no silent cancellation)
        "cancel.unreported_tasks_untouched": z3.ForAll(
            [x],
            z3.Implies(z3.And(0 < x, x < c.alloc0, z3.Not(c.post.l_mem(TaskList, c.res, x))), z3.And(same("_state"), same("_cancellation_time"), same("_probability"), same("_remaining_time"))),
            patterns=[task_state(c.post, x)],
        ),
        # the task itself is cancelled and reported unless it already was
        "cancel.start_task_reported_unless_already_cancelled": c.post.l_mem(TaskList, c.res, task) == (task_state(c.pre, task) != CANCELLED),
    }


Contract(
    TG + ".cancel#body",
    params={"self": TGR, "task": S_.TASKR, "time": _ETy},
    ret=TaskList,
    requires=lambda c: {"maps_distinct": g_children(c.pre, c.arg("self")) != g_parents(c.pre, c.arg("self")), "task_given": z3.And(c.arg("task") > 0, c.pre.cls_tag(c.arg("task")) == CLASSES[TASK].code)},
    may_raise=("ValueError", "AttributeError"),
    raise_unchanged=False,
    modifies=lambda c: dict({c.pre.fld_arr(TASK, f)[0]: ANY for f in ("_state", "_cancellation_time", "_probability", "_remaining_time")}, **_adj_mod(c, g_parents(c.pre, c.arg("self")))),
    loops={0: Loop(inv=_tgc_inv, modifies=_tgc_mod)},
    locals={"cancelled_tasks": TaskList, "frontier": TaskList},
    ensures=_tgc_ens,
    entry_facts=lambda c: [closed_graph(c, c.arg("self")), Fact("heap.closed", c.arg("task") < c.alloc0)],
    allocates=True,
    note="the soundness half of the cascade, verified against the body: reported => cancelled now and only before it ran; unreported => untouched; ValueError when a reached task is RUNNING / COMPLETED or not in the graph (not constrained). Which tasks are reached (closure, stop at joins with a live parent) is decided by the bounded taskgraph stand-in; callers use the abstract contract (closure as an uninterpreted predicate)",
    props=("C06", "C07"),
)
