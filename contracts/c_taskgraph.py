"""Graph / TaskGraph accessors and Task.is_ready_to_run (C02, C18 function level)."""
import z3

from pyvc import ty as T
from pyvc import heap as H
from pyvc.engine import Fact, Step
from pyvc.registry import ANY, CLASSES, Contract, Loop, declare_ref, lemma, scan, assumption, observation
from contracts import shapes as S_
from contracts.c_utils import ETy, OptET, us
from contracts.c_tasks import TASK, SCHEDULED, PREEMPTED, EVICTED, COMPLETED, CANCELLED, state as _state

GRAPH = "workload.graph.Graph"
TG = "workload.tasks.TaskGraph"
TaskList = T.List(S_.TASKR)
Adj = T.Dict(S_.TASKR, TaskList, default="list")

Graph = declare_ref(GRAPH, {"_graph": Adj, "_parent_graph": Adj})
TaskGraph = declare_ref(TG, {"_name": T.STR, "_job_graph": T.Ref(None)}, bases=[GRAPH])
TaskGraph.fields["_job_graph"].nullable = True
TGR = TaskGraph.ty

P = ("C02", "C18")


def g_children(h, g):
    return h.rd(g, GRAPH, "_graph")[1]


def g_parents(h, g):
    return h.rd(g, GRAPH, "_parent_graph")[1]


def parents_list(h, g, t):
    """the list object holding t's parents (0 / junk when t has no entry yet)"""
    return h.d_val(Adj, g_parents(h, g), t)


def n_parents(h, g, t):
    pg = g_parents(h, g)
    return z3.If(h.d_dom(Adj, pg, t), h.c_len(TaskList, h.d_val(Adj, pg, t)), 0)


def parent_at(h, g, t, j):
    return h.l_elem(TaskList, h.d_val(Adj, g_parents(h, g), t), j)


def is_complete_state(s):
    return z3.Or(s == EVICTED, s == COMPLETED)


def task_state(h, t):
    return h.rd(t, TASK, "_state")[1]


def terminal(h, t):
    job = h.rd(t, TASK, "_creating_job")[1]
    return h.rd(job, "workload.jobs.Job", "_terminal")[1]


def parents_complete(h, g, t):
    """spec of the readiness test: join (terminal) -> some parent complete; otherwise all parents complete"""
    j = z3.Int(H.fresh_name("pc_j"))
    rng = z3.And(0 <= j, j < n_parents(h, g, t))
    pj = parent_at(h, g, t, j)
    return z3.If(
        terminal(h, t),
        z3.Exists([j], z3.And(rng, is_complete_state(task_state(h, pj)))),
        z3.ForAll([j], z3.Implies(rng, is_complete_state(task_state(h, pj)))),
    )


def ready_to_run(h, g, t):
    s = task_state(h, t)
    return z3.And(parents_complete(h, g, t), z3.Or(s == SCHEDULED, s == PREEMPTED))


def _adj_mod(c, d):
    return {c.pre.carr(Adj, p)[0]: [d] for p in ("len", "keys", "idx", "dom", "val")}


def _get_adj_contract(qname, which, field_fn, other_fn):
    def ens(c):
        g, node = c.arg("self"), c.arg("node")
        d = field_fn(c.pre, g)
        x = z3.Int(H.fresh_name("ga_x"))
        present = c.pre.d_dom(Adj, d, node)
        return {
            which + ".is_the_stored_list": z3.And(c.post.d_dom(Adj, d, node), c.res == c.post.d_val(Adj, d, node), c.res != 0),
            # defaultdict: a node without an entry gets a fresh empty list (the only possible side effect)
            which + ".existing_entry_returned": z3.Implies(present, c.res == c.pre.d_val(Adj, d, node)),
            which + ".missing_entry_is_fresh_empty": z3.Implies(z3.Not(present), z3.And(c.res >= c.alloc0, c.post.c_len(TaskList, c.res) == 0)),
            which + ".others_untouched": z3.ForAll(
                [x], z3.Implies(x != node, z3.And(c.post.d_dom(Adj, d, x) == c.pre.d_dom(Adj, d, x), c.post.d_val(Adj, d, x) == c.pre.d_val(Adj, d, x))), patterns=[c.post.d_dom(Adj, d, x)]
            ),
        }

    Contract(
        qname,
        params={"self": T.Ref(GRAPH), "node": S_.TASKR},
        ret=TaskList,
        requires=lambda c: {"maps_distinct": g_children(c.pre, c.arg("self")) != g_parents(c.pre, c.arg("self"))},
        raises={"ValueError": lambda c: z3.Not(c.pre.d_dom(Adj, g_children(c.pre, c.arg("self")), c.arg("node")))},
        modifies=lambda c: _adj_mod(c, field_fn(c.pre, c.arg("self"))),
        ensures=ens,
        allocates=True,
        props=P,
    )


_get_adj_contract("workload.graph.Graph.get_parents", "get_parents", g_parents, g_children)
_get_adj_contract("workload.graph.Graph.get_children", "get_children", g_children, g_parents)


def _ready_ens(c):
    g, t = c.arg("task_graph"), c.arg("self")
    return {
        # C02: ready <=> (join: some parent complete | otherwise: all parents complete) and SCHEDULED or PREEMPTED.
        # Evaluated in the post-state: the only heap effect is the defaultdict entry for a parentless task.
        "ready.iff": c.res == ready_to_run(c.post, g, t),
        "ready.iff_pre": c.res == ready_to_run(c.pre, g, t),
        "ready.states": z3.Implies(c.res, z3.Or(task_state(c.pre, t) == SCHEDULED, task_state(c.pre, t) == PREEMPTED)),
        "ready.task_states_untouched": task_state(c.post, t) == task_state(c.pre, t),
    }


Contract(
    "workload.tasks.Task.is_ready_to_run",
    params={"self": S_.Task.ty, "task_graph": TGR},
    ret=T.BOOL,
    requires=lambda c: {
        "task_in_graph": c.pre.d_dom(Adj, g_children(c.pre, c.arg("task_graph")), c.arg("self")),
        "maps_distinct": g_children(c.pre, c.arg("task_graph")) != g_parents(c.pre, c.arg("task_graph")),
    },
    modifies=lambda c: _adj_mod(c, g_parents(c.pre, c.arg("task_graph"))),
    ensures=_ready_ens,
    allocates=True,
    props=P,
)
