#!/bin/bash
# final regression pass: every seeded change of seeded/ is applied to a scratch worktree of /repo and the checks recorded
# for it are run against that copy (PYVC_REPO); the outcome goes to seeded/<id>/final_pass.json.  /repo is not touched.
# usage: tools_reseed2.sh [id-glob]      (location independent; results are written next to this script)
HERE="$(cd "$(dirname "$0")" && pwd)"
cd "$HERE"
for d in seeded/${1:-*}/; do
  id=$(basename $d)
  [ -f $d/patch.diff ] || continue
  pids=$(python3 -c "import json;print(' '.join(json.load(open('$d/meta.json'))['checks_run_against_it'].keys()))")
  WT=/tmp/seed/reseed_wt_$id; SCR=/tmp/seed/reseed_scr_$id
  rm -rf $SCR; mkdir -p $SCR/evidence $SCR/replays
  git -C /repo worktree add -q --detach $WT HEAD || continue
  ( cd $WT && git apply $HERE/$d/patch.diff ) || { echo "RESEED $id cannot apply"; git -C /repo worktree remove --force $WT; continue; }
  res="{"
  for P in $pids; do
    out=$(PYVC_REPO=$WT VERIF_EVIDENCE_DIR=$SCR/evidence VERIF_REPLAY_DIR=$SCR/replays ./check $P 2>&1); rc=$?
    vio=$(echo "$out" | grep -E "^FAILED" | sed -E 's/^FAILED obligation=([^ ]*) fn=([^ ]*).*/\2:\1/' | head -4 | tr '\n' ';')
    und=$(echo "$out" | grep -cE "^UNDECIDED")
    res="$res\"$P\": {\"rc\": $rc, \"first_failed\": \"$vio\", \"undecided_lines\": $und},"
    echo "RESEED $id $P rc=$rc $vio"
  done
  echo "${res%,}}" > $d/final_pass.json
  git -C /repo worktree remove --force $WT; rm -rf $SCR
done
