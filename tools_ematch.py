#!/usr/bin/env python3
"""robustness diagnostic: which obligations of a function are NOT closed by pure e-matching (no MBQI)?
Those depend on model-based instantiation and are the ones whose solver time is unstable under load; each
is a candidate for a better trigger or an intermediate Step.      tools_ematch.py <qname> [...]"""
import sys, time, os, glob, importlib, subprocess, tempfile, shutil
from concurrent.futures import ThreadPoolExecutor
sys.path.insert(0, '/verif')
for p in sorted(glob.glob('/verif/contracts/c_*.py')):
    importlib.import_module('contracts.' + os.path.basename(p)[:-3])
from pyvc import verify as V
import z3

def run(q):
    cap = []
    def d_all(obls, ver, jobs=None):
        cap.extend(obls)
        for o in obls:
            o.status, o.seconds, o.backend = "discharged", 0, "skipped"
    V.discharge_all = d_all
    v = V.Verifier(q); r = v.run_all()
    if r.status != "ok":
        print(q, r.status, r.reason[:300]); return
    tmpd = tempfile.mkdtemp(prefix="ematch_")
    work = []
    for i, o in enumerate(cap):
        s = z3.Solver()
        for p_ in o.pc: s.add(p_)
        s.add(z3.Not(o.goal))
        path = os.path.join(tmpd, "%d.smt2" % i)
        open(path, "w").write(s.to_smt2())
        work.append((i, path))
    def chk(w):
        i, path = w
        t0 = time.time()
        try:
            p = subprocess.run(["z3-new", "-T:10", "smt.auto_config=false", "smt.mbqi=false", path], capture_output=True, text=True, timeout=20)
            out = p.stdout.strip().split("\n")[0]
        except subprocess.TimeoutExpired:
            out = "timeout"
        return i, out, time.time() - t0
    with ThreadPoolExecutor(max_workers=8) as ex:
        res = list(ex.map(chk, work))
    shutil.rmtree(tmpd, ignore_errors=True)
    bad = [(cap[i], out, secs) for i, out, secs in res if out != "unsat"]
    print("%s: %d obligations, %d not closed by e-matching alone" % (q, len(cap), len(bad)))
    for o, out, secs in bad:
        print("    %-70s %-8s %5.1fs %s" % (o.name[:70], out, secs, list(o.key[2])[-8:]))

for q in sys.argv[1:]:
    run(q)
